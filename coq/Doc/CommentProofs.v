From Coq Require Import List Bool NArith Arith Lia.
From SliceV Require Import Cli.PluginSpec Sema.Lookup Doc.Comment.
Import ListNotations.
Local Open Scope nat_scope.

(* ------------------------------------------------------------------------------------------------ character spans *)
Lemma span_while_app p a b : forallb p a = true -> (match b with c :: _ => p c = false | [] => True end) -> span_while p (a ++ b) = (a, b).
Proof.
  induction a as [|x a IH]; cbn [app forallb span_while]; intros Ha Hb.
  - destruct b as [|c b]; [reflexivity|]. cbn [span_while]. rewrite Hb. reflexivity.
  - apply andb_true_iff in Ha as [Hx Ha]. rewrite Hx, IH by assumption. reflexivity.
Qed.
Lemma span_while_all p a : forallb p a = true -> span_while p a = (a, []).
Proof. intros H. rewrite <- (app_nil_r a) at 1. apply span_while_app; [exact H|exact I]. Qed.
Lemma span_while_split p s : s = fst (span_while p s) ++ snd (span_while p s) /\ forallb p (fst (span_while p s)) = true.
Proof.
  induction s as [|c s [IH1 IH2]]; cbn [span_while]; [split; reflexivity|].
  destruct (p c) eqn:E; [|split; reflexivity]. destruct (span_while p s) as [a b]. cbn [fst snd] in *. split; [cbn [app]; f_equal; exact IH1|].
  cbn [forallb]. rewrite E. exact IH2.
Qed.
Lemma trim_start_span s : trim_start s = snd (span_while is_ws s).
Proof. induction s as [|c s IH]; cbn [trim_start span_while]; [reflexivity|]. destruct (is_ws c); [|reflexivity]. destruct (span_while is_ws s). exact IH. Qed.
Lemma leading_ws_le t : leading_ws t <= length t.
Proof. unfold leading_ws. destruct (span_while_split is_ws t) as [H _]. rewrite H at 2. rewrite app_length. lia. Qed.

Lemma firstn_In_ {A} (l : list A) n x : In x (firstn n l) -> In x l.
Proof. revert n; induction l as [|y l IH]; intros [|n] H; cbn in *; try contradiction. destruct H as [->|H]; [left; reflexivity|right; eapply IH; exact H]. Qed.
Lemma leading_ws_rest t : leading_ws (snd (span_while is_ws t)) = 0.
Proof.
  unfold leading_ws. induction t as [|c t IH]; cbn [span_while]; [reflexivity|]. destruct (is_ws c) eqn:E.
  - destruct (span_while is_ws t). cbn [snd] in *. exact IH.
  - cbn [snd span_while]. rewrite E. reflexivity.
Qed.
(* ------------------------------------------------------------------------------------------------ indentation removal *)
(* what is removed from a line is white space only, and never more than the line's own indentation *)
Theorem strip_removes_white_space k t : exists w, t = w ++ strip k t /\ forallb is_ws w = true /\
  match k with Some n => length w = Nat.min n (leading_ws t) | None => length w = leading_ws t end.
Proof.
  destruct (span_while_split is_ws t) as [Hs Hw]. destruct k as [n|]; cbn [strip].
  - exists (firstn (Nat.min n (leading_ws t)) t). split; [symmetry; apply firstn_skipn|]. split.
    + assert (Hm : Nat.min n (leading_ws t) <= length (fst (span_while is_ws t))) by (unfold leading_ws; lia).
      remember (Nat.min n (leading_ws t)) as m eqn:Em. clear Em.
      rewrite Hs. rewrite firstn_app. replace (m - length (fst (span_while is_ws t))) with 0 by lia.
      cbn [firstn]. rewrite app_nil_r. apply forallb_forall. intros x Hx. apply firstn_In_ in Hx. eapply forallb_forall in Hw; eauto.
    + rewrite firstn_length. pose proof (leading_ws_le t). lia.
  - exists (fst (span_while is_ws t)). rewrite trim_start_span. split; [exact Hs|]. split; [exact Hw|reflexivity].
Qed.
(* the common indentation is the minimum over the lines that count (those with something other than white space) *)
Lemma common_indent_min ls : match common_indent ls with
  | Some k => (forall l n, In l ls -> line_indent l = Some n -> k <= n) /\ (exists l, In l ls /\ line_indent l = Some k)
  | None => forall l, In l ls -> line_indent l = None end.
Proof.
  induction ls as [|l ls IH]; cbn [common_indent fold_right]; [intros l []|]. fold (common_indent ls).
  destruct (line_indent l) as [x|] eqn:El; destruct (common_indent ls) as [y|] eqn:Ec; cbn [omin].
  - destruct IH as [IH1 [l0 [IH2 IH3]]]. split.
    + intros l' n [<-|Hin] Hn; [rewrite El in Hn; inversion Hn; lia|]. specialize (IH1 l' n Hin Hn). lia.
    + destruct (Nat.le_ge_cases x y).
      * exists l. split; [left; reflexivity|]. rewrite El. f_equal. lia.
      * exists l0. split; [right; exact IH2|]. rewrite IH3. f_equal. lia.
  - split.
    + intros l' n [<-|Hin] Hn; [rewrite El in Hn; inversion Hn; lia|]. rewrite (IH l' Hin) in Hn. discriminate.
    + exists l. split; [left; reflexivity|exact El].
  - destruct IH as [IH1 [l0 [IH2 IH3]]]. split.
    + intros l' n [<-|Hin] Hn; [rewrite El in Hn; discriminate|]. exact (IH1 l' n Hin Hn).
    + exists l0. split; [right; exact IH2|exact IH3].
  - intros l' [<-|Hin]; [exact El|exact (IH l' Hin)].
Qed.
(* a counted line whose first component is text loses exactly the common indentation: relative indentation is preserved *)
Theorem counted_line_loses_exactly_common ls k t rest : common_indent ls = Some k -> In (Some (CText t :: rest)) ls ->
  line_indent (Some (CText t :: rest)) <> None ->
  exists w, t = w ++ strip (Some k) t /\ forallb is_ws w = true /\ length w = k /\
            strip_line (Some k) (Some (CText t :: rest)) = CText (strip (Some k) t) :: rest ++ [nlc].
Proof.
  intros Hc Hin Hcount. pose proof (common_indent_min ls) as M. rewrite Hc in M. destruct M as [M1 _].
  destruct (line_indent (Some (CText t :: rest))) as [n|] eqn:El; [|congruence].
  pose proof (M1 _ _ Hin El) as Hle.
  assert (n = leading_ws t) as ->.
  { cbn [line_indent] in El. destruct rest; [destruct (all_ws t); [discriminate|]|]; inversion El; reflexivity. }
  destruct (strip_removes_white_space (Some k) t) as (w & H1 & H2 & H3). exists w. repeat split; auto. lia.
Qed.
(* some counted line ends up with no indentation at all: nothing more could have been removed from every line *)
Theorem some_line_starts_at_margin ls k : common_indent ls = Some k ->
  exists l, In l ls /\ line_indent l = Some k /\
    match l with Some (CText t :: _) => leading_ws (strip (Some k) t) = 0 \/ all_ws t = true | _ => k = 0 end.
Proof.
  intros Hc. pose proof (common_indent_min ls) as M. rewrite Hc in M. destruct M as [_ (l & Hin & Hl)].
  exists l. split; [exact Hin|]. split; [exact Hl|].
  destruct l as [[|[t|g ids] rest]|]; cbn [line_indent] in Hl; try discriminate; [|inversion Hl; reflexivity].
  assert (k = leading_ws t) as -> by (destruct rest; [destruct (all_ws t); [discriminate|]|]; inversion Hl; reflexivity).
  left. cbn [strip]. rewrite Nat.min_id. unfold leading_ws.
  destruct (span_while_split is_ws t) as [Hs Hw]. rewrite Hs at 2. rewrite skipn_app, skipn_all, Nat.sub_diag. cbn [skipn app].
  apply leading_ws_rest.
Qed.
(* line breaks are preserved: every written line gives its components followed by exactly one newline component, in order *)
Theorem sanitize_line_structure ls : sanitize ls = flat_map (strip_line (common_indent ls)) ls /\
  forall k l, exists body, strip_line k l = body ++ [nlc] /\
    match l with
    | None => body = []
    | Some (CText t :: rest) => body = CText (strip k t) :: rest
    | Some m => body = m
    end.
Proof.
  split; [reflexivity|]. intros k [[|[t|g ids] rest]|]; cbn [strip_line].
  - exists []. split; reflexivity.
  - exists (CText (strip k t) :: rest). split; reflexivity.
  - exists (CLink g ids :: rest). split; reflexivity.
  - exists []. split; reflexivity.
Qed.

(* ------------------------------------------------------------------------------------------------ lexer: plain text lines *)
Local Open Scope N_scope.
Lemma lex_plain_text s : s <> [] -> forallb not_lb s = true -> line_mode s = LMessage -> lex_line s = [IT (DKText s); IT DKNewline].
Proof.
  intros Hne Hp Hm. unfold lex_line. rewrite Hm. destruct s as [|c r]; [congruence|]. cbn [length lex].
  cbn [forallb] in Hp. apply andb_true_iff in Hp as [Hc Hr].
  unfold not_lb in Hc. apply negb_true_iff in Hc. rewrite Hc. cbn [andb].
  rewrite (span_while_all _ _ Hr). destruct r; reflexivity.
Qed.
Lemma lex_empty_line : lex_line [] = [IT DKNewline].
Proof. reflexivity. Qed.

(* ------------------------------------------------------------------------------------------------ links *)
(* a link or see target is bound by the scope search used for types (Sema.Lookup.find), started at the documented element's
   own scoped identifier: innermost scope first, then each enclosing one, then the global scope; '::' = global only *)
Theorem resolve_link_spec t self global id :
  resolve_link t self global id =
    match find_spec _ t self global id with
    | Some (k, e) => if linkable k then LinkTo e else LinkNotLinkable k
    | None => LinkMissing
    end.
Proof. unfold resolve_link. rewrite find_eq_spec. reflexivity. Qed.

(* ------------------------------------------------------------------------------------------------ parser: written lines *)
Local Open Scope nat_scope.
(* what can be written: message components, and the four kinds of line *)
Inductive wline := WMsg (cs : message) | WParam (i : cstr) (inline : option message) | WReturns (i : option cstr) (inline : option message) | WSee (g : bool) (ids : list cstr).
Definition wf_comp (c : comp) : Prop := match c with CLink _ ids => ids <> [] | CText _ => True end.
Fixpoint scoped_rest_toks (ids : list cstr) : list item :=
  match ids with [] => [] | i :: r => IT DKDColon :: IT (DKIdent i) :: scoped_rest_toks r end.
Definition scoped_toks (g : bool) (ids : list cstr) : list item :=
  match ids with [] => [] | i :: r => (if g then [IT DKDColon] else []) ++ IT (DKIdent i) :: scoped_rest_toks r end.
Definition comp_toks (c : comp) : list item :=
  match c with CText s => [IT (DKText s)] | CLink g ids => IT DKLBrace :: IT DKLink :: scoped_toks g ids ++ [IT DKRBrace] end.
Definition msg_toks (m : message) : list item := flat_map comp_toks m.
Definition inline_toks (il : option message) : list item := match il with Some m => IT DKColon :: msg_toks m | None => [] end.
Definition line_toks (w : wline) : list item :=
  match w with
  | WMsg cs => msg_toks cs ++ [IT DKNewline]
  | WParam i il => IT DKParam :: IT (DKIdent i) :: inline_toks il ++ [IT DKNewline]
  | WReturns (Some i) il => IT DKReturns :: IT (DKIdent i) :: inline_toks il ++ [IT DKNewline]
  | WReturns None il => IT DKReturns :: inline_toks il ++ [IT DKNewline]
  | WSee g ids => IT DKSee :: scoped_toks g ids ++ [IT DKNewline]
  end.
Definition flat_inline (il : option message) : option message := match il with Some m => opt_msg m | None => None end.
Definition pline_of (w : wline) : pline :=
  match w with
  | WMsg cs => PMsg (opt_msg cs)
  | WParam i il => PTag TParam (Some i) (flat_inline il)
  | WReturns i il => PTag TReturns i (flat_inline il)
  | WSee g ids => PSee g ids
  end.
Definition wf_line (w : wline) : Prop :=
  match w with
  | WMsg cs => Forall wf_comp cs
  | WParam _ (Some m) | WReturns _ (Some m) => Forall wf_comp m
  | WSee _ ids => ids <> []
  | _ => True
  end.
Definition no_comp_start (ts : list item) : Prop := match ts with IT (DKText _) :: _ | IT DKLBrace :: _ => False | _ => True end.
Definition no_dcolon (ts : list item) : Prop := match ts with IT DKDColon :: _ => False | _ => True end.

Lemma scoped_rest_written ids rest : no_dcolon rest -> scoped_rest (scoped_rest_toks ids ++ rest) = Ok (ids, rest).
Proof.
  intros Hr. induction ids as [|i ids IH]; cbn [scoped_rest_toks app].
  - destruct rest as [|[[]|] rest]; try reflexivity. contradiction.
  - cbn [scoped_rest]. rewrite IH. reflexivity.
Qed.
Lemma scoped_written g ids rest : ids <> [] -> no_dcolon rest -> scoped_id (scoped_toks g ids ++ rest) = Ok (g, ids, rest).
Proof.
  intros Hne Hr. destruct ids as [|i ids]; [congruence|]. unfold scoped_toks. destruct g; cbn [app scoped_id]; rewrite scoped_rest_written by exact Hr; reflexivity.
Qed.
Lemma comps_written cs : Forall wf_comp cs -> forall fuel rest, length cs < fuel -> no_comp_start rest ->
  comps fuel (msg_toks cs ++ rest) = Ok (cs, rest).
Proof.
  induction 1 as [|c cs Hc _ IH]; intros fuel rest Hf Hr; (destruct fuel as [|f]; [cbn [length] in Hf; lia|]).
  - cbn [msg_toks flat_map app comps]. destruct rest as [|[[]|] rest]; try reflexivity; contradiction.
  - cbn [msg_toks flat_map]. fold (msg_toks cs). cbn [length] in Hf. destruct c as [s|g ids]; cbn [comp_toks app comps].
    + rewrite IH by (auto; lia). reflexivity.
    + rewrite <- !app_assoc. cbn [app]. rewrite scoped_written by (auto; exact I). cbn [rbind snd fst].
      rewrite IH by (auto; lia). reflexivity.
Qed.
(* every written line is read back as the line it is *)
Theorem parse_line_written w : wf_line w -> parse_line (line_toks w) = Ok (pline_of w).
Proof.
  intros Hw. destruct w as [cs|i il|[i|] il|g ids]; cbn [line_toks pline_of].
  - (* message line *)
    assert (E : parse_line (msg_toks cs ++ [IT DKNewline]) = rbind (comps (S (length (msg_toks cs ++ [IT DKNewline]))) (msg_toks cs ++ [IT DKNewline])) (fun p => expect_newline (snd p) (PMsg (opt_msg (fst p))))).
    { destruct cs as [|[s|g ids] cs]; reflexivity. }
    rewrite E, comps_written; [reflexivity|exact Hw| |exact I].
    rewrite app_length. cbn [length]. assert (length cs <= length (msg_toks cs)); [|lia].
    clear. induction cs as [|c cs IH]; [cbn; lia|]. cbn [msg_toks flat_map length]. rewrite app_length. fold (msg_toks cs). destruct c; cbn [comp_toks length]; lia.
  - cbn [parse_line]. destruct il as [m|]; cbn [inline_toks app section_rest flat_inline]; [|reflexivity].
    rewrite comps_written; [reflexivity|exact Hw| |exact I].
    rewrite app_length. cbn [length]. assert (length m <= length (msg_toks m)); [|lia].
    clear. induction m as [|c cs IH]; [cbn; lia|]. cbn [msg_toks flat_map length]. rewrite app_length. fold (msg_toks cs). destruct c; cbn [comp_toks length]; lia.
  - cbn [parse_line]. destruct il as [m|]; cbn [inline_toks app section_rest flat_inline]; [|reflexivity].
    rewrite comps_written; [reflexivity|exact Hw| |exact I].
    rewrite app_length. cbn [length]. assert (length m <= length (msg_toks m)); [|lia].
    clear. induction m as [|c cs IH]; [cbn; lia|]. cbn [msg_toks flat_map length]. rewrite app_length. fold (msg_toks cs). destruct c; cbn [comp_toks length]; lia.
  - destruct il as [m|]; cbn [inline_toks app flat_inline].
    + cbn [parse_line section_rest]. rewrite comps_written; [reflexivity|exact Hw| |exact I].
      rewrite app_length. cbn [length]. assert (length m <= length (msg_toks m)); [|lia].
      clear. induction m as [|c cs IH]; [cbn; lia|]. cbn [msg_toks flat_map length]. rewrite app_length. fold (msg_toks cs). destruct c; cbn [comp_toks length]; lia.
    + reflexivity.
  - cbn [parse_line]. rewrite scoped_written; [reflexivity|exact Hw|exact I].
Qed.

(* ------------------------------------------------------------------------------------------------ grouping: overview, then tags in order *)
Lemma starts_message_written w : wf_line w -> starts_message (line_toks w) = match w with WMsg _ => true | _ => false end.
Proof.
  destruct w as [cs|i il|[i|] il|g ids]; intros Hw; try reflexivity.
  destruct cs as [|[s|g ids] cs]; reflexivity.
Qed.
(* the same grouping over lines already read *)
Fixpoint group (ls : list pline) (c : dctx) (d : doc) : res doc :=
  match ls with
  | [] => Ok (dflush c d)
  | PMsg m :: rest => match c with
                      | COverview l => group rest (COverview (l ++ [m])) d
                      | CTag k id il l => group rest (CTag k id il (l ++ [m])) d
                      | CAfterSee => Err PSyntax
                      end
  | PTag k id il :: rest => group rest (CTag k id il []) (dflush c d)
  | PSee g ids :: rest => group rest CAfterSee (add_see (dflush c d) g ids)
  end.
Lemma parse_lines_written ws : Forall wf_line ws -> forall c d, parse_lines (map line_toks ws) c d = group (map pline_of ws) c d.
Proof.
  induction 1 as [|w ws Hw _ IH]; intros c d; [reflexivity|]. cbn [map parse_lines group].
  rewrite starts_message_written, parse_line_written by exact Hw. cbn [rbind].
  destruct w as [cs|i il|i il|g ids]; cbn [pline_of]; destruct c; try reflexivity; apply IH.
Qed.

(* a comment as it is written: overview lines, then blocks; a param/returns block owns the message lines after it *)
Inductive wblock := BParam (i : cstr) (il : option message) (conts : list (option message))
                  | BReturns (i : option cstr) (il : option message) (conts : list (option message))
                  | BSee (g : bool) (ids : list cstr).
Definition block_plines (b : wblock) : list pline :=
  match b with
  | BParam i il conts => PTag TParam (Some i) il :: map PMsg conts
  | BReturns i il conts => PTag TReturns i il :: map PMsg conts
  | BSee g ids => [PSee g ids]
  end.
Definition apply_block (d : doc) (b : wblock) : doc :=
  match b with
  | BParam i il conts => dflush (CTag TParam (Some i) il conts) d
  | BReturns i il conts => dflush (CTag TReturns i il conts) d
  | BSee g ids => add_see d g ids
  end.
Lemma group_conts conts : forall rest k id il l d, group (map PMsg conts ++ rest) (CTag k id il l) d = group rest (CTag k id il (l ++ conts)) d.
Proof.
  induction conts as [|m conts IH]; intros rest k id il l d; cbn [map app group]; [rewrite app_nil_r; reflexivity|].
  rewrite IH, <- app_assoc. reflexivity.
Qed.
Lemma group_overview ov : forall rest l d, group (map PMsg ov ++ rest) (COverview l) d = group rest (COverview (l ++ ov)) d.
Proof.
  induction ov as [|m ov IH]; intros rest l d; cbn [map app group]; [rewrite app_nil_r; reflexivity|].
  rewrite IH, <- app_assoc. reflexivity.
Qed.
Lemma group_blocks bs : forall c d, group (flat_map block_plines bs) c d = Ok (fold_left apply_block bs (dflush c d)).
Proof.
  induction bs as [|b bs IH]; intros c d; [reflexivity|]. cbn [flat_map fold_left].
  destruct b as [i il conts|i il conts|g ids]; cbn [block_plines app group].
  - rewrite group_conts, IH. reflexivity.
  - rewrite group_conts, IH. reflexivity.
  - rewrite IH. reflexivity.
Qed.
(* the overview is made of the leading message lines; then every tag, in the order written, with the identifier written and
   the message made of its inline part and the lines that follow it *)
Theorem comment_structure ov bs :
  group (map PMsg ov ++ flat_map block_plines bs) (COverview []) doc0 = Ok (fold_left apply_block bs (dflush (COverview ov) doc0)).
Proof. rewrite group_overview, group_blocks. reflexivity. Qed.
Definition block_params (b : wblock) : list (cstr * message) := match b with BParam i il conts => [(i, section_message il conts)] | _ => [] end.
Definition block_returns (b : wblock) : list (option cstr * message) := match b with BReturns i il conts => [(i, section_message il conts)] | _ => [] end.
Definition block_sees (b : wblock) : list (bool * list cstr) := match b with BSee g ids => [(g, ids)] | _ => [] end.
Theorem tags_in_order bs : forall d,
  let r := fold_left apply_block bs d in
  d_overview r = d_overview d /\ d_params r = d_params d ++ flat_map block_params bs /\ d_returns r = d_returns d ++ flat_map block_returns bs /\ d_see r = d_see d ++ flat_map block_sees bs.
Proof.
  induction bs as [|b bs IH]; intros d; cbn [fold_left flat_map]; [rewrite !app_nil_r; auto|].
  destruct (IH (apply_block d b)) as (H1 & H2 & H3 & H4). cbn zeta. rewrite H1, H2, H3, H4.
  destruct b as [i il conts|i il conts|g ids]; cbn [apply_block dflush add_see d_overview d_params d_returns d_see block_params block_returns block_sees app];
    rewrite <- ?app_assoc, ?app_nil_r; auto.
Qed.

(* ------------------------------------------------------------------------------------------------ lexer: message lines with links *)
Local Open Scope N_scope.
Definition ident_ok (i : cstr) : Prop := match i with c :: r => is_letter c = true /\ forallb is_alnum_ r = true | [] => False end.
Fixpoint render_rest (ids : list cstr) : cstr := match ids with [] => [] | i :: r => [58; 58] ++ i ++ render_rest r end.
Definition render_scoped (g : bool) (ids : list cstr) : cstr :=
  match ids with [] => [] | i :: r => (if g then [58; 58] else []) ++ i ++ render_rest r end.
(* a link is written {@link target} ; text is written as it is *)
Definition render_comp (c : comp) : cstr :=
  match c with CText s => s | CLink g ids => [123; 64; 108; 105; 110; 107; 32] ++ render_scoped g ids ++ [125] end.
Definition render_msg (m : message) : cstr := flat_map render_comp m.
(* text pieces are non-empty, contain no opening brace and are separated by links; identifiers are Slice identifiers *)
Fixpoint wfl_msg (m : message) : Prop :=
  match m with
  | [] => True
  | CText s :: r => s <> [] /\ forallb not_lb s = true /\ match r with CText _ :: _ => False | _ => True end /\ wfl_msg r
  | CLink g ids :: r => ids <> [] /\ Forall ident_ok ids /\ wfl_msg r
  end.

Lemma letter_facts c : is_letter c = true -> is_ws c = false /\ (c =? 64) = false /\ (c =? 58) = false /\ (c =? 125) = false /\ is_alnum_ c = true.
Proof.
  intros H. unfold is_letter in H. rewrite orb_true_iff, !andb_true_iff, !N.leb_le in H.
  assert (W : is_ws c = false).
  { unfold is_ws. repeat (apply orb_false_iff; split); rewrite ?andb_false_iff, ?N.leb_gt, ?N.eqb_neq; lia. }
  repeat split; auto; try (apply N.eqb_neq; lia). unfold is_alnum_, is_letter.
  destruct H as [[H1 H2]|[H1 H2]]; apply N.leb_le in H1, H2; rewrite H1, H2; cbn; rewrite ?orb_true_r; reflexivity.
Qed.
Lemma lex_text f c t rest : not_lb c = true -> forallb not_lb t = true -> (match rest with [] => True | d :: _ => d = 123 end) ->
  lex (S f) LMessage ((c :: t) ++ rest) = IT (DKText (c :: t)) :: lex f LMessage rest.
Proof.
  intros Hc Ht Hr. cbn [app lex]. unfold not_lb in Hc. apply negb_true_iff in Hc. rewrite Hc. cbn [andb].
  rewrite span_while_app; [reflexivity|exact Ht|]. destruct rest as [|d r]; [exact I|]. subst d. reflexivity.
Qed.
Lemma lex_open f X : lex (S (S f)) LMessage (123 :: 64 :: 108 :: 105 :: 110 :: 107 :: 32 :: X) = IT DKLBrace :: IT DKLink :: lex f LInline (32 :: X).
Proof. reflexivity. Qed.
Lemma lex_space f X : lex (S f) LInline (32 :: X) = lex (S f) LInline X.
Proof. reflexivity. Qed.
Lemma lex_dcolon f X : lex (S f) LInline (58 :: 58 :: X) = IT DKDColon :: lex f LInline X.
Proof. reflexivity. Qed.
Lemma lex_rbrace f X : lex (S f) LInline (125 :: X) = IT DKRBrace :: lex f LMessage X.
Proof. reflexivity. Qed.
Lemma lex_ident f i rest : ident_ok i -> (match rest with d :: _ => is_alnum_ d = false | [] => True end) ->
  lex (S f) LInline (i ++ rest) = IT (DKIdent i) :: lex f LInline rest.
Proof.
  intros Hi Hr. destruct i as [|c r]; [contradiction|]. destruct Hi as [Hc Ht].
  destruct (letter_facts c Hc) as (W & A & B & C & D).
  cbn [app lex trim_start is_inline]. rewrite W. unfold c_at, c_colon, c_rb. rewrite A, B, C, Hc.
  change (c :: r ++ rest) with ((c :: r) ++ rest). rewrite span_while_app; [reflexivity| |exact Hr].
  cbn [forallb]. rewrite D, Ht. reflexivity.
Qed.
Lemma lex_scoped_rest ids : Forall ident_ok ids -> forall f X,
  lex (2 * length ids + S f)%nat LInline (render_rest ids ++ 125 :: X) = scoped_rest_toks ids ++ IT DKRBrace :: lex f LMessage X.
Proof.
  induction 1 as [|i ids Hi _ IH]; intros f X.
  - cbn [length Nat.mul Nat.add render_rest app scoped_rest_toks]. apply lex_rbrace.
  - cbn [length render_rest scoped_rest_toks]. replace (2 * S (length ids) + S f)%nat with (S (S (2 * length ids + S f)))%nat by lia.
    rewrite <- !app_assoc. cbn [app]. rewrite lex_dcolon. rewrite lex_ident; [|exact Hi|].
    + rewrite IH. reflexivity.
    + destruct ids; reflexivity.
Qed.
Lemma lex_link g ids : ids <> [] -> Forall ident_ok ids -> forall f X,
  lex (length (comp_toks (CLink g ids)) + f)%nat LMessage (render_comp (CLink g ids) ++ X) = comp_toks (CLink g ids) ++ lex f LMessage X.
Proof.
  intros Hne Hok f X. destruct ids as [|i ids]; [congruence|]. inversion Hok as [|? ? Hi Hids]; subst.
  cbn [comp_toks render_comp render_scoped scoped_toks].
  assert (L : forall (a b : list item), length (a ++ b) = (length a + length b)%nat) by (intros; apply app_length).
  assert (Ls : length (scoped_rest_toks ids) = (2 * length ids)%nat) by (clear; induction ids as [|? ? IH]; cbn [scoped_rest_toks length]; lia).
  destruct g; cbn [app length]; rewrite ?L; cbn [length]; rewrite ?Ls.
  - replace (S (S (S (S (2 * length ids + 1))))+ f)%nat with (S (S (S (S (2 * length ids + S f)))))%nat by lia.
    rewrite <- !app_assoc. cbn [app]. rewrite lex_open, lex_space. rewrite lex_dcolon.
    rewrite lex_ident; [|exact Hi|destruct ids; reflexivity].
    cbn [app]. rewrite lex_scoped_rest by exact Hids. rewrite <- ?app_assoc. reflexivity.
  - replace (S (S (S (2 * length ids + 1))) + f)%nat with (S (S (S (2 * length ids + S f))))%nat by lia.
    rewrite <- !app_assoc. cbn [app]. rewrite lex_open, lex_space.
    rewrite lex_ident; [|exact Hi|destruct ids; reflexivity].
    cbn [app]. rewrite lex_scoped_rest by exact Hids. rewrite <- ?app_assoc. reflexivity.
Qed.
Lemma render_starts_brace m : wfl_msg m -> match m with CLink _ _ :: _ => exists r, render_msg m = 123 :: r | _ => True end.
Proof. destruct m as [|[s|g ids] m]; intros _; try exact I. eexists. reflexivity. Qed.
Lemma lex_message m : wfl_msg m -> forall f, lex (length (msg_toks m) + S f)%nat LMessage (render_msg m) = msg_toks m ++ [IT DKNewline].
Proof.
  induction m as [|c m IH]; intros Hw f; [reflexivity|].
  cbn [render_msg msg_toks flat_map]. fold (render_msg m) (msg_toks m). rewrite app_length, <- Nat.add_assoc.
  destruct c as [s|g ids]; cbn [wfl_msg] in Hw.
  - destruct Hw as (Hne & Hs & Hadj & Hw). destruct s as [|c t]; [congruence|]. cbn [forallb] in Hs. apply andb_true_iff in Hs as [Hc Ht].
    cbn [comp_toks length Nat.add render_comp]. rewrite lex_text; [|exact Hc|exact Ht|].
    + rewrite IH by exact Hw. reflexivity.
    + destruct m as [|[s'|g' ids'] m']; [exact I|contradiction|reflexivity].
  - destruct Hw as (Hne & Hok & Hw). rewrite lex_link by assumption. rewrite IH by exact Hw. rewrite <- app_assoc. reflexivity.
Qed.
Lemma toks_le_chars m : wfl_msg m -> (length (msg_toks m) <= length (render_msg m))%nat.
Proof.
  induction m as [|c m IH]; intros Hw; [cbn; lia|]. cbn [msg_toks render_msg flat_map]. fold (msg_toks m) (render_msg m). rewrite !app_length.
  destruct c as [s|g ids]; cbn [wfl_msg] in Hw.
  - destruct Hw as (Hne & _ & _ & Hw). specialize (IH Hw). destruct s; [congruence|]. cbn [comp_toks render_comp length]. lia.
  - destruct Hw as (Hne & Hok & Hw). specialize (IH Hw). cbn [comp_toks render_comp length]. rewrite !app_length. cbn [length].
    assert (length (scoped_toks g ids) <= length (render_scoped g ids))%nat; [|lia].
    destruct ids as [|i ids]; [congruence|]. inversion Hok as [|? ? Hi Hids]; subst. cbn [scoped_toks render_scoped]. rewrite !app_length. cbn [length].
    assert (length (scoped_rest_toks ids) <= length (render_rest ids))%nat.
    { clear -Hids. induction Hids as [|j ids Hj _ IHs]; [cbn; lia|]. cbn [scoped_rest_toks render_rest length app]. rewrite app_length. destruct j; [contradiction|]. cbn [length]. lia. }
    destruct i; [contradiction|]. destruct g; cbn [length]; lia.
Qed.
(* a written message line (text pieces and {@link ...} tags) is read back as exactly those components *)
Theorem lex_line_written m : wfl_msg m -> line_mode (render_msg m) = LMessage -> lex_line (render_msg m) = line_toks (WMsg m).
Proof.
  intros Hw Hm. unfold lex_line. rewrite Hm. pose proof (toks_le_chars m Hw) as Hle.
  replace (S (S (length (render_msg m)))) with (length (msg_toks m) + S (S (length (render_msg m)) - length (msg_toks m)))%nat by lia.
  apply lex_message. exact Hw.
Qed.
Lemma wfl_wf m : wfl_msg m -> Forall wf_comp m.
Proof. induction m as [|[s|g ids] m IH]; cbn [wfl_msg]; intros H; constructor; try exact I; try tauto; apply IH; tauto. Qed.

(* a comment consisting of message lines only: the overview is those lines, components kept, indentation removed as stated above *)
Theorem overview_of_written_lines ms : ms <> [] -> Forall (fun m => wfl_msg m /\ line_mode (render_msg m) = LMessage) ms ->
  parse_comment (map render_msg ms) =
    Ok {| d_overview := Some (sanitize (map opt_msg ms)); d_params := []; d_returns := []; d_see := [] |}.
Proof.
  intros Hne Hall. unfold parse_comment.
  assert (E : map lex_line (map render_msg ms) = map line_toks (map WMsg ms)).
  { rewrite !map_map. apply map_ext_in. intros m Hin. rewrite Forall_forall in Hall. destruct (Hall m Hin) as [H1 H2]. apply lex_line_written; assumption. }
  rewrite E, parse_lines_written.
  - rewrite map_map. cbn [pline_of]. rewrite <- (map_map opt_msg PMsg), <- (app_nil_r (map PMsg _)), group_overview. cbn [group dflush app doc0 d_params d_returns d_see].
    destruct ms; [congruence|]. reflexivity.
  - apply Forall_forall. intros w Hin. apply in_map_iff in Hin as (m & <- & Hin). rewrite Forall_forall in Hall. cbn [wf_line]. apply wfl_wf. apply Hall. exact Hin.
Qed.

(* ------------------------------------------------------------------------------------------------ totality (C01) *)
Local Open Scope nat_scope.
Lemma unexpected_not_fuel {A} ts : @unexpected A ts <> Err PFuel.
Proof. destruct ts as [|[t|e] r]; discriminate. Qed.
Lemma scoped_rest_props : forall n ts, length ts <= n ->
  scoped_rest ts <> Err PFuel /\ forall ids r, scoped_rest ts = Ok (ids, r) -> length r <= length ts.
Proof.
  induction n as [|n IH]; intros ts Hn.
  - destruct ts; [|cbn in Hn; lia]. split; [discriminate|intros ids r H; inversion H; subst; lia].
  - destruct ts as [|[t|e] ts']; try (split; [discriminate|intros ids r H; inversion H; subst; lia]).
    destruct t; try (split; [discriminate|intros ids r H; inversion H; subst; lia]).
    cbn [scoped_rest]. destruct ts' as [|[t2|e2] ts'']; try (split; [apply unexpected_not_fuel|intros ids r H; discriminate H]).
    destruct t2; try (split; [apply unexpected_not_fuel|intros ids r H; discriminate H]).
    cbn [length] in Hn. destruct (IH ts'' ltac:(lia)) as [N S].
    destruct (scoped_rest ts'') as [[ids' r']|e] eqn:E; cbn [rbind fst snd].
    + split; [discriminate|]. intros ids r H; inversion H; subst. specialize (S ids' r eq_refl). cbn [length]. lia.
    + split; [congruence|discriminate].
Qed.
Lemma scoped_id_props ts : scoped_id ts <> Err PFuel /\ forall g ids r, scoped_id ts = Ok (g, ids, r) -> length r < length ts.
Proof.
  unfold scoped_id. destruct ts as [|[t|e] ts']; try (split; [apply unexpected_not_fuel|intros g ids r H; discriminate H]).
  destruct t; try (split; [apply unexpected_not_fuel|intros g ids r H; discriminate H]).
  - destruct (scoped_rest_props (length ts') ts' (le_n _)) as [N S].
    destruct (scoped_rest ts') as [[ids' r']|e] eqn:E; cbn [rbind fst snd].
    + split; [discriminate|]. intros g ids r H; inversion H; subst. specialize (S ids' r eq_refl). cbn [length]. lia.
    + split; [congruence|discriminate].
  - destruct ts' as [|[t2|e2] ts'']; try (split; [apply unexpected_not_fuel|intros g ids r H; discriminate H]).
    destruct t2; try (split; [apply unexpected_not_fuel|intros g ids r H; discriminate H]).
    destruct (scoped_rest_props (length ts'') ts'' (le_n _)) as [N S].
    destruct (scoped_rest ts'') as [[ids' r']|e] eqn:E; cbn [rbind fst snd].
    + split; [discriminate|]. intros g ids r H; inversion H; subst. specialize (S ids' r eq_refl). cbn [length]. lia.
    + split; [congruence|discriminate].
Qed.
Lemma comps_total : forall fuel ts, length ts < fuel -> comps fuel ts <> Err PFuel /\ forall m r, comps fuel ts = Ok (m, r) -> length r <= length ts.
Proof.
  induction fuel as [|f IH]; intros ts Hf; [lia|]. cbn [comps].
  destruct ts as [|[t|e] ts']; try (split; [discriminate|intros m r H; inversion H; subst; lia]).
  destruct t; try (split; [discriminate|intros m r H; inversion H; subst; lia]).
  - cbn [length] in Hf. destruct (IH ts' ltac:(lia)) as [N S]. destruct (comps f ts') as [[m r]|e] eqn:E; cbn [rbind fst snd].
    + split; [discriminate|]. intros m' r' H; inversion H; subst. specialize (S m r' eq_refl). cbn [length]. lia.
    + split; [congruence|discriminate].
  - destruct ts' as [|[t2|e2] ts'']; try (split; [apply unexpected_not_fuel|intros m r H; discriminate H]).
    destruct t2; try (split; [apply unexpected_not_fuel|intros m r H; discriminate H]).
    destruct (scoped_id_props ts'') as [N2 S2].
    destruct (scoped_id ts'') as [[[g ids] r2]|e] eqn:E; cbn [rbind snd fst]; [|split; [congruence|discriminate]].
    specialize (S2 g ids r2 eq_refl).
    destruct r2 as [|[t3|e3] r3]; try (split; [apply unexpected_not_fuel|intros m r H; discriminate H]).
    destruct t3; try (split; [apply unexpected_not_fuel|intros m r H; discriminate H]).
    cbn [length] in *. destruct (IH r3 ltac:(lia)) as [N S]. destruct (comps f r3) as [[m r]|e] eqn:E3; cbn [rbind fst snd].
    + split; [discriminate|]. intros m' r' H; inversion H; subst. specialize (S m r' eq_refl). lia.
    + split; [congruence|discriminate].
Qed.
Lemma expect_newline_not_fuel {A} r (a : A) : expect_newline r a <> Err PFuel.
Proof. unfold expect_newline. destruct r as [|[t|e] r']; try discriminate. destruct t; discriminate. Qed.
Lemma parse_line_total ts : parse_line ts <> Err PFuel.
Proof.
  assert (C : forall ts0 (k : message * list item -> res pline), (forall p, k p <> Err PFuel) -> rbind (comps (S (length ts0)) ts0) k <> Err PFuel).
  { intros ts0 k Hk. destruct (comps_total (S (length ts0)) ts0 (le_n _)) as [N _]. destruct (comps (S (length ts0)) ts0) as [p|e]; cbn [rbind]; [apply Hk|congruence]. }
  assert (SR : forall k id r, section_rest k id r <> Err PFuel).
  { intros k id r. unfold section_rest. destruct r as [|[t|e] r']; try apply expect_newline_not_fuel. destruct t; try apply expect_newline_not_fuel.
    apply C. intros p. apply expect_newline_not_fuel. }
  unfold parse_line. destruct ts as [|[t|e] r]; try discriminate.
  destruct t; try discriminate; try (apply C; intros p; apply expect_newline_not_fuel).
  - destruct r as [|[t2|e2] r']; try apply unexpected_not_fuel. destruct t2; try apply unexpected_not_fuel. apply SR.
  - destruct r as [|[t2|e2] r']; try apply SR. destruct t2; apply SR.
  - destruct (scoped_id_props r) as [N _]. destruct (scoped_id r) as [q|e]; cbn [rbind]; [apply expect_newline_not_fuel|congruence].
Qed.
(* the comment parser always returns a comment or a syntax/lexical error: it never runs out of steps *)
Theorem parse_comment_total lines : parse_comment lines <> Err PFuel.
Proof.
  unfold parse_comment. generalize (COverview []) doc0. induction (map lex_line lines) as [|ts rest IH]; intros c d; cbn [parse_lines]; [discriminate|].
  assert (K : rbind (parse_line ts) (fun pl => match pl with
        | PMsg m => match c with COverview l => parse_lines rest (COverview (l ++ [m])) d | CTag k id il l => parse_lines rest (CTag k id il (l ++ [m])) d | CAfterSee => Err PSyntax end
        | PTag k id il => parse_lines rest (CTag k id il []) (dflush c d)
        | PSee g ids => parse_lines rest CAfterSee (add_see (dflush c d) g ids) end) <> Err PFuel).
  { pose proof (parse_line_total ts) as T. destruct (parse_line ts) as [pl|e]; cbn [rbind]; [|congruence].
    destruct pl as [m|k id il|g ids]; [destruct c; try apply IH; discriminate|apply IH|apply IH]. }
  destruct c; try exact K. destruct (starts_message ts); [discriminate|exact K].
Qed.
