(* Executable model of doc-comment processing (C16): parsers/comments/lexer.rs (modes Message / BlockTag / InlineTag),
   parsers/comments/grammar.lalrpop + grammar.rs (sections, sanitize_message_lines, construct_section_message),
   patchers/comment_link_patcher.rs (link lookup from the documented element's own scope) and the tag checks of
   validators/comments.rs and validators/operations.rs.  Characters are Unicode scalar values (N); a comment is the list
   of its lines, each the text after the three slashes.  Model only; proofs in CommentProofs.v. *)
From Coq Require Import List Bool NArith Arith.
From SliceV Require Import Cli.PluginSpec Sema.Lookup.
Import ListNotations.
Local Open Scope N_scope.

Definition cstr := list N.
Fixpoint cstr_eqb (a b : cstr) : bool :=
  match a, b with [], [] => true | x :: a', y :: b' => (x =? y) && cstr_eqb a' b' | _, _ => false end.

Inductive tok := DKIdent (s : cstr) | DKText (s : cstr) | DKNewline | DKParam | DKReturns | DKSee | DKLink | DKLBrace | DKRBrace | DKColon | DKDColon.
Inductive lexerr := LMissingTag | LUnknownTag (t : cstr) | LWrongContext (t : cstr) (inline : bool) | LUnknownSymbol (c : N) | LUnterminated.
Inductive item := IT (t : tok) | IE (e : lexerr).
Inductive lmode := LBlock | LInline | LMessage.

Definition c_at := 64. Definition c_lb := 123. Definition c_rb := 125. Definition c_colon := 58.
Definition is_letter (c : N) : bool := ((65 <=? c) && (c <=? 90)) || ((97 <=? c) && (c <=? 122)).
Definition is_alnum_ (c : N) : bool := is_letter c || ((48 <=? c) && (c <=? 57)) || (c =? 95).
Definition not_lb (c : N) : bool := negb (c =? c_lb).
Fixpoint span_while (p : N -> bool) (s : cstr) : cstr * cstr :=
  match s with [] => ([], []) | c :: r => if p c then let (a, b) := span_while p r in (c :: a, b) else ([], s) end.

Definition s_param : cstr := [112;97;114;97;109]. Definition s_returns : cstr := [114;101;116;117;114;110;115].
Definition s_see : cstr := [115;101;101]. Definition s_link : cstr := [108;105;110;107].
(* read_tag_keyword: the tag_keyword, then its context check *)
Definition tag_keyword (inline : bool) (id : cstr) : item :=
  if cstr_eqb id s_param then (if inline then IE (LWrongContext id true) else IT DKParam)
  else if cstr_eqb id s_returns then (if inline then IE (LWrongContext id true) else IT DKReturns)
  else if cstr_eqb id s_see then (if inline then IE (LWrongContext id true) else IT DKSee)
  else if cstr_eqb id s_link then (if inline then IT DKLink else IE (LWrongContext id false))
  else match id with [] => IE LMissingTag | _ => IE (LUnknownTag id) end.
Definition is_inline (m : lmode) : bool := match m with LInline => true | _ => false end.

Definition opens_tag (r : cstr) : bool := match trim_start r with d :: _ => d =? c_at | [] => false end.
(* one line: the items up to and including the Newline token (preceded by the unterminated-tag error when the line ends inside
   an inline tag).  Every step consumes at least one character; fuel = length + 2. *)
Fixpoint lex (fuel : nat) (m : lmode) (s : cstr) : list item :=
  match fuel with O => [] | S f =>
  match m with
  | LMessage =>
    match s with
    | [] => [IT DKNewline]
    | c :: r =>
      if (c =? c_lb) && opens_tag r then IT DKLBrace :: lex f LInline (trim_start r)
      else let (t, rest) := span_while not_lb r in IT (DKText (c :: t)) :: lex f LMessage rest
    end
  | _ =>
    match trim_start s with
    | [] => if is_inline m then [IE LUnterminated; IT DKNewline] else [IT DKNewline]
    | c :: r =>
      if c =? c_at then let (id, rest) := span_while is_alnum_ r in tag_keyword (is_inline m) id :: lex f m rest
      else if c =? c_colon then
        match r with
        | d :: r2 => if d =? c_colon then IT DKDColon :: lex f m r2 else IT DKColon :: lex f (if is_inline m then m else LMessage) r
        | [] => IT DKColon :: lex f (if is_inline m then m else LMessage) r
        end
      else if c =? c_rb then IT DKRBrace :: lex f (if is_inline m then LMessage else m) r
      else if is_letter c then let (id, rest) := span_while is_alnum_ (c :: r) in IT (DKIdent id) :: lex f m rest
      else IE (LUnknownSymbol c) :: lex f m r
    end
  end end.
Definition line_mode (s : cstr) : lmode := match trim_start s with c :: _ => if c =? c_at then LBlock else LMessage | [] => LMessage end.
Definition lex_line (s : cstr) : list item := lex (S (S (length s))) (line_mode s) s.

(* ---------------------------------------------------------------------------------------------------- parser *)
Inductive comp := CText (s : cstr) | CLink (global : bool) (ids : list cstr).
Definition message := list comp.
Inductive dperr := PLex (e : lexerr) | PSyntax | PEof | PFuel.
Inductive res (A : Type) := Ok (a : A) | Err (e : dperr).
Arguments Ok {A}. Arguments Err {A}.
Definition rbind {A B} (r : res A) (f : A -> res B) : res B := match r with Ok a => f a | Err e => Err e end.
(* the parser stops at the first item it cannot use: a lexical error is reported as such, another token as a syntax error *)
Definition unexpected {A} (ts : list item) : res A := match ts with IE e :: _ => Err (PLex e) | IT _ :: _ => Err PSyntax | [] => Err PEof end.

Fixpoint scoped_rest (ts : list item) : res (list cstr * list item) :=
  match ts with
  | IT DKDColon :: r =>
    match r with
    | IT (DKIdent i) :: r' => rbind (scoped_rest r') (fun p => Ok (i :: fst p, snd p))
    | _ => unexpected r
    end
  | _ => Ok ([], ts)
  end.
Definition scoped_id (ts : list item) : res (bool * list cstr * list item) :=
  match ts with
  | IT DKDColon :: r =>
    match r with IT (DKIdent i) :: r' => rbind (scoped_rest r') (fun p => Ok (true, i :: fst p, snd p)) | _ => unexpected r end
  | IT (DKIdent i) :: r' => rbind (scoped_rest r') (fun p => Ok (false, i :: fst p, snd p))
  | _ => unexpected ts
  end.
(* MessageComponent*  (fuel counts components) *)
Fixpoint comps (fuel : nat) (ts : list item) : res (message * list item) :=
  match fuel with O => Err PFuel | S f =>
  match ts with
  | IT (DKText s) :: r => rbind (comps f r) (fun p => Ok (CText s :: fst p, snd p))
  | IT DKLBrace :: r =>
    match r with
    | IT DKLink :: r1 =>
      rbind (scoped_id r1) (fun q => match snd q with
                                  | IT DKRBrace :: r3 => rbind (comps f r3) (fun p => Ok (CLink (fst (fst q)) (snd (fst q)) :: fst p, snd p))
                                  | r2 => unexpected r2 end)
    | _ => unexpected r
    end
  | _ => Ok ([], ts)
  end end.
Definition opt_msg (m : message) : option message := match m with [] => None | _ => Some m end.

Inductive tagkind := TParam | TReturns.
Inductive pline := PMsg (m : option message) | PTag (k : tagkind) (id : option cstr) (inline : option message) | PSee (global : bool) (ids : list cstr).
Definition expect_newline {A} (r : list item) (a : A) : res A := match r with IT DKNewline :: _ => Ok a | _ => unexpected r end.
(* Section, first line:  (":" Message?)? newline *)
Definition section_rest (k : tagkind) (id : option cstr) (r : list item) : res pline :=
  match r with
  | IT DKColon :: r1 => rbind (comps (S (length r1)) r1) (fun p => expect_newline (snd p) (PTag k id (opt_msg (fst p))))
  | _ => expect_newline r (PTag k id None)
  end.
Definition parse_line (ts : list item) : res pline :=
  match ts with
  | IT DKParam :: r => match r with IT (DKIdent i) :: r1 => section_rest TParam (Some i) r1 | _ => unexpected r end
  | IT DKReturns :: r => match r with IT (DKIdent i) :: r1 => section_rest TReturns (Some i) r1 | _ => section_rest TReturns None r end
  | IT DKSee :: r => rbind (scoped_id r) (fun q => expect_newline (snd q) (PSee (fst (fst q)) (snd (fst q))))
  | IT (DKText _) :: _ | IT DKLBrace :: _ | IT DKNewline :: _ => rbind (comps (S (length ts)) ts) (fun p => expect_newline (snd p) (PMsg (opt_msg (fst p))))
  | _ => unexpected ts
  end.
Definition starts_message (ts : list item) : bool := match ts with IT (DKText _) :: _ | IT DKLBrace :: _ | IT DKNewline :: _ => true | _ => false end.

(* sanitize_message_lines: the common indentation (in characters) of the lines that have something other than white space on
   them is removed from every line; a line ends with a newline component *)
Definition nlc : comp := CText [10].
Definition leading_ws (s : cstr) : nat := length (fst (span_while is_ws s)).
Definition all_ws (s : cstr) : bool := forallb is_ws s.
Definition line_indent (l : option message) : option nat :=
  match l with
  | Some (CText t :: rest) => match rest with [] => if all_ws t then None else Some (leading_ws t) | _ => Some (leading_ws t) end
  | Some (CLink _ _ :: _) => Some 0%nat
  | _ => None
  end.
Definition omin (a : option nat) (b : option nat) : option nat :=
  match a, b with Some x, Some y => Some (Nat.min x y) | Some x, None => Some x | None, b => b end.
Definition common_indent (ls : list (option message)) : option nat := fold_right (fun l acc => omin (line_indent l) acc) None ls.
Definition strip (k : option nat) (t : cstr) : cstr :=
  match k with Some n => skipn (Nat.min n (leading_ws t)) t | None => trim_start t end.
Definition strip_line (k : option nat) (l : option message) : message :=
  match l with
  | Some (CText t :: rest) => CText (strip k t) :: rest ++ [nlc]
  | Some m => m ++ [nlc]
  | None => [nlc]
  end.
Definition sanitize (ls : list (option message)) : message := flat_map (strip_line (common_indent ls)) ls.
(* construct_section_message *)
Definition section_message (inline : option message) (ls : list (option message)) : message :=
  let v := match ls with [] => [] | _ => sanitize ls end in
  match inline with
  | Some (CText t :: rest) => CText (trim_start t) :: rest ++ [nlc] ++ v
  | Some m => m ++ [nlc] ++ v
  | None => v
  end.

Record doc := { d_overview : option message; d_params : list (cstr * message); d_returns : list (option cstr * message); d_see : list (bool * list cstr) }.
Definition doc0 : doc := {| d_overview := None; d_params := []; d_returns := []; d_see := [] |}.
Inductive dctx := COverview (ls : list (option message)) | CTag (k : tagkind) (id : option cstr) (inline : option message) (ls : list (option message)) | CAfterSee.
Definition dflush (c : dctx) (d : doc) : doc :=
  match c with
  | COverview ls => {| d_overview := match ls with [] => None | _ => Some (sanitize ls) end; d_params := d_params d; d_returns := d_returns d; d_see := d_see d |}
  | CTag TParam id inline ls => {| d_overview := d_overview d; d_params := d_params d ++ [(match id with Some i => i | None => [] end, section_message inline ls)]; d_returns := d_returns d; d_see := d_see d |}
  | CTag TReturns id inline ls => {| d_overview := d_overview d; d_params := d_params d; d_returns := d_returns d ++ [(id, section_message inline ls)]; d_see := d_see d |}
  | CAfterSee => d
  end.
Definition add_see (d : doc) (g : bool) (ids : list cstr) : doc :=
  {| d_overview := d_overview d; d_params := d_params d; d_returns := d_returns d; d_see := d_see d ++ [(g, ids)] |}.
(* the grammar over lines: leading message lines are the overview; a param/returns tag owns the message lines that follow it;
   nothing but another tag may follow a see tag *)
Fixpoint parse_lines (ls : list (list item)) (c : dctx) (d : doc) : res doc :=
  match ls with
  | [] => Ok (dflush c d)
  | ts :: rest =>
    match c, starts_message ts with
    | CAfterSee, true => Err PSyntax
    | _, _ =>
      rbind (parse_line ts) (fun pl =>
        match pl with
        | PMsg m => match c with
                    | COverview l => parse_lines rest (COverview (l ++ [m])) d
                    | CTag k id il l => parse_lines rest (CTag k id il (l ++ [m])) d
                    | CAfterSee => Err PSyntax
                    end
        | PTag k id il => parse_lines rest (CTag k id il []) (dflush c d)
        | PSee g ids => parse_lines rest CAfterSee (add_see (dflush c d) g ids)
        end)
    end
  end.
Definition parse_comment (lines : list cstr) : res doc := parse_lines (map lex_line lines) (COverview []) doc0.

(* ---------------------------------------------------------------------------------------------------- links and tag checks *)
Inductive lkind := LkStruct | LkField | LkInterface | LkOperation | LkEnum | LkEnumerator | LkCustom | LkAlias | LkModule | LkParameter | LkPrimitive.
Definition linkable (k : lkind) : bool := match k with LkModule | LkParameter | LkPrimitive => false | _ => true end.
Inductive linkres := LinkTo (entity : nat) | LinkMissing | LinkNotLinkable (k : lkind).
(* the target is searched like a type: from the documented element's own scope outwards, then globally ('::' = globally only) *)
Definition resolve_link (t : table (lkind * nat)) (self : scoped) (global : bool) (id : scoped) : linkres :=
  match find _ t self global id with
  | Some (k, e) => if linkable k then LinkTo e else LinkNotLinkable k
  | None => LinkMissing
  end.
Definition msg_links (m : message) : list (bool * list cstr) :=
  flat_map (fun c => match c with CLink g ids => [(g, ids)] | CText _ => [] end) m.
(* the links of a comment in the order they are resolved (and a broken one reported) *)
Definition doc_links (d : doc) : list (bool * list cstr) :=
  match d_overview d with Some m => msg_links m | None => [] end ++ flat_map (fun p => msg_links (snd p)) (d_params d)
  ++ flat_map (fun p => msg_links (snd p)) (d_returns d) ++ d_see d.

(* IncorrectDocComment: which tags do not fit the element.  The element: its kind, and for an operation the names of its
   parameters and return members. *)
Definition mem_str (x : cstr) (l : list cstr) : bool := existsb (cstr_eqb x) l.
Inductive tagref := RParam (i : nat) | RReturns (i : nat).
Definition indexed {A} (l : list A) : list (nat * A) := combine (seq 0 (length l)) l.
Definition tag_lints (k : lkind) (params rets : list cstr) (d : doc) : list tagref :=
  match k with
  | LkOperation =>
    flat_map (fun p => if mem_str (fst (snd p)) params then [] else [RParam (fst p)]) (indexed (d_params d)) ++
    flat_map (fun p => match rets with
                       | [] => [RReturns (fst p)]
                       | [_] => match fst (snd p) with Some _ => [RReturns (fst p)] | None => [] end
                       | _ => match fst (snd p) with Some i => if mem_str i rets then [] else [RReturns (fst p)] | None => [] end
                       end) (indexed (d_returns d))
  | LkEnumerator => map (fun p => RReturns (fst p)) (indexed (d_returns d))
  | _ => map (fun p => RParam (fst p)) (indexed (d_params d)) ++ map (fun p => RReturns (fst p)) (indexed (d_returns d))
  end.
