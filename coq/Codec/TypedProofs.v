From Coq Require Import List NArith ZArith Lia ZifyBool ZifyN ZifyNat Bool.
From SliceV Require Import Base.Bytes Base.Utf8 Gen.VarintArms Codec.Wire Codec.WireProofs Codec.CollProofs Codec.Typed.
Import ListNotations.
Open Scope N_scope.

Lemma bytes_eqb_eq a b : bytes_eqb a b = true -> a = b.
Proof.
  revert b; induction a as [|x a IH]; destruct b as [|y b]; cbn; try discriminate; auto.
  intros H. apply andb_true_iff in H as [H1 H2]. apply N.eqb_eq in H1. f_equal; auto.
Qed.
Lemma bytes_eqb_refl a : bytes_eqb a a = true.
Proof. induction a; cbn; auto. rewrite N.eqb_refl. auto. Qed.
Lemma pval_eqb_eq a b : pval_eqb a b = true -> a = b.
Proof.
  destruct a, b; cbn; try discriminate; intros H.
  - apply eqb_prop in H. congruence.
  - apply N.eqb_eq in H. congruence.
  - apply Z.eqb_eq in H. congruence.
  - apply bytes_eqb_eq in H. congruence.
Qed.
Lemma pval_eqb_refl a : pval_eqb a a = true.
Proof. destruct a; cbn; auto using eqb_reflx, N.eqb_refl, Z.eqb_refl, bytes_eqb_refl. Qed.

Lemma enc_p_roundtrip p v rest : wf_p p v ->
  exists b, enc_p p v = Some b /\ dec_p p (b ++ rest) = DOk v rest.
Proof.
  destruct p, v; cbn [wf_p enc_p dec_p]; try contradiction; intros H.
  - eexists; split; [reflexivity|]. rewrite bool_roundtrip. reflexivity.
  - destruct H. eexists; split; [reflexivity|]. rewrite uint_roundtrip by auto. reflexivity.
  - destruct H. eexists; split; [reflexivity|]. rewrite int_roundtrip by auto. reflexivity.
  - destruct (varuint_roundtrip v rest H) as (b & Hb & Hd). exists b. rewrite Hd. auto.
  - destruct (varint_roundtrip z rest H) as (b & Hb & Hd). exists b. rewrite Hd. auto.
  - destruct H as (H1 & H2 & _). destruct (str_roundtrip s rest H1 H2) as (b & Hb & Hd). exists b. rewrite Hd. auto.
Qed.
Lemma enc_p_nonempty p v b : wf_p p v -> enc_p p v = Some b -> b <> [].
Proof.
  destruct p, v; cbn [wf_p enc_p]; try contradiction; try discriminate; intros Hw H.
  - inversion H. destruct b0; discriminate.
  - inversion H. destruct Hw as [Hn _]. destruct n; [lia|]. discriminate.
  - inversion H. destruct Hw as [Hn _]. destruct n; [lia|]. discriminate.
  - apply varuint_length in H. destruct b; [cbn in H; lia|discriminate].
  - apply varint_length in H. destruct b; [cbn in H; lia|discriminate].
  - unfold enc_str in H. destruct (enc_size (N.of_nat (length s))) as [h|] eqn:E; [|discriminate].
    inversion H. apply varuint_length in E. destruct h; [cbn in E; lia|discriminate].
Qed.

(* the element-codec hypotheses of seq/dict round-trips need non-emptiness only for well-formed
   values, so they are restated here with that guard *)
Section Guarded.
  Context {A : Type} (enc_e : A -> option (list byte)) (dec_e : list byte -> dres A) (P : A -> Prop).
  Hypothesis Hrt : forall x rest, P x -> exists b, enc_e x = Some b /\ dec_e (b ++ rest) = DOk x rest.
  Hypothesis Hne : forall x b, P x -> enc_e x = Some b -> b <> [].
  Lemma items_roundtrip_g l rest fuel : Forall P l -> (length l <= fuel)%nat ->
    exists bs, enc_items enc_e l = Some bs /\ (length l <= length bs)%nat /\
               dec_items dec_e fuel (N.of_nat (length l)) (bs ++ rest) = DOk l rest.
  Proof.
    intros HP. revert fuel. induction HP as [|x l Hx Hl IH]; intros fuel Hf.
    - exists []. cbn. destruct fuel; auto.
    - destruct fuel as [|f]; [cbn in Hf; lia|].
      destruct (IH f ltac:(cbn in Hf; lia)) as (bs & Hbs & Hlen & Hd).
      destruct (Hrt x (bs ++ rest) Hx) as (b & Hb & Hdb).
      exists (b ++ bs). cbn [enc_items]. rewrite Hb, Hbs. split; [reflexivity|].
      split.
      { rewrite app_length. cbn [length]. pose proof (Hne x b Hx Hb). destruct b; [congruence|cbn; lia]. }
      cbn [dec_items length].
      destruct (N.eqb_spec (N.of_nat (S (length l))) 0); [lia|].
      rewrite <- app_assoc, Hdb. cbn [dbind].
      replace (N.of_nat (S (length l)) - 1) with (N.of_nat (length l)) by lia.
      rewrite Hd. reflexivity.
  Qed.
  Lemma seq_roundtrip_g l rest : Forall P l -> N.of_nat (length l) < 2 ^ 62 ->
    exists bs, enc_seq enc_e l = Some bs /\ bs <> [] /\ dec_seq dec_e (bs ++ rest) = DOk l rest.
  Proof.
    intros HP Hl. unfold enc_seq, enc_size.
    destruct (items_roundtrip_g l rest (S (length l)) HP ltac:(lia)) as (bs & Hbs & Hlen & _).
    destruct (varuint_roundtrip (N.of_nat (length l)) (bs ++ rest) Hl) as (h & Hh & Hd).
    rewrite Hh, Hbs. eexists; split; [reflexivity|]. split.
    { apply varuint_length in Hh. destruct h; [cbn in Hh; lia|discriminate]. }
    unfold dec_seq, dec_size. rewrite <- app_assoc, Hd. cbn [dbind].
    destruct (items_roundtrip_g l rest (S (length (bs ++ rest))) HP) as (bs' & Hbs' & _ & Hd').
    { rewrite app_length. lia. }
    rewrite Hbs in Hbs'. inversion Hbs'; subst bs'. exact Hd'.
  Qed.
End Guarded.

Section GuardedDict.
  Context {V : Type} (k : pty) (enc_v : V -> option (list byte)) (dec_v : list byte -> dres V) (PV : V -> Prop).
  Hypothesis Hv : forall x rest, PV x -> exists b, enc_v x = Some b /\ dec_v (b ++ rest) = DOk x rest.
  Let Pp (kv : pval * V) := wf_p k (fst kv) /\ PV (snd kv).

  Lemma pair_rt kv rest : Pp kv ->
    exists b, enc_pair (enc_p k) enc_v kv = Some b /\ b <> [] /\ dec_pair (dec_p k) dec_v (b ++ rest) = DOk kv rest.
  Proof.
    intros [Hpk Hpv]. destruct kv as [x v]. cbn [fst snd] in *.
    destruct (Hv v rest Hpv) as (bv & Hbv & Hdv).
    destruct (enc_p_roundtrip k x (bv ++ rest) Hpk) as (bk & Hbk & Hdk).
    exists (bk ++ bv). unfold enc_pair, dec_pair. cbn [fst snd]. rewrite Hbk, Hbv. split; [reflexivity|].
    split. { pose proof (enc_p_nonempty _ _ _ Hpk Hbk). destruct bk; [congruence|discriminate]. }
    rewrite <- app_assoc, Hdk. cbn [dbind]. rewrite Hdv. reflexivity.
  Qed.
  Lemma has_key_false_g x (acc : list (pval * V)) : ~ In x (map fst acc) -> has_key pval_eqb x acc = false.
  Proof.
    intros H. unfold has_key. apply not_true_is_false. intros E. apply existsb_exists in E as (kv & Hin & Heq).
    apply pval_eqb_eq in Heq. subst x. apply H. apply in_map. exact Hin.
  Qed.
  Lemma entries_rt l acc rest fuel : Forall Pp l -> NoDup (map fst (rev acc ++ l)) -> (length l <= fuel)%nat ->
    exists bs, enc_items (enc_pair (enc_p k) enc_v) l = Some bs /\ (length l <= length bs)%nat /\
               dec_entries pval_eqb (dec_p k) dec_v fuel (N.of_nat (length l)) acc (bs ++ rest) = DOk (rev acc ++ l) rest.
  Proof.
    intros HP. revert acc fuel. induction HP as [|x l Hx Hl IH]; intros acc fuel Hnd Hf.
    - exists []. cbn. rewrite app_nil_r. destruct fuel; auto.
    - destruct fuel as [|f]; [cbn in Hf; lia|].
      destruct (IH (x :: acc) f) as (bs & Hbs & Hlen & Hd).
      { cbn [rev]. rewrite <- app_assoc. exact Hnd. }
      { cbn in Hf; lia. }
      destruct (pair_rt x (bs ++ rest) Hx) as (b & Hb & Hbne & Hdb).
      exists (b ++ bs). cbn [enc_items]. rewrite Hb, Hbs. split; [reflexivity|].
      split. { rewrite app_length. cbn [length]. destruct b; [congruence|cbn; lia]. }
      cbn [dec_entries length].
      destruct (N.eqb_spec (N.of_nat (S (length l))) 0); [lia|].
      rewrite <- app_assoc, Hdb. cbn [dbind].
      rewrite has_key_false_g.
      2:{ rewrite map_app in Hnd. apply NoDup_remove_2 in Hnd. intros Hin. apply Hnd.
          apply in_or_app. left. rewrite map_rev. apply -> in_rev. exact Hin. }
      replace (N.of_nat (S (length l)) - 1) with (N.of_nat (length l)) by lia.
      rewrite Hd. cbn [rev]. rewrite <- app_assoc. reflexivity.
  Qed.
  Lemma dict_roundtrip_g l rest : Forall Pp l -> NoDup (map fst l) -> N.of_nat (length l) < 2 ^ 62 ->
    exists bs, enc_dict (enc_p k) enc_v l = Some bs /\ bs <> [] /\
               dec_dict pval_eqb (dec_p k) dec_v (bs ++ rest) = DOk l rest.
  Proof.
    intros HP Hnd Hl. unfold enc_dict, enc_seq, enc_size.
    destruct (entries_rt l [] rest (S (length l)) HP Hnd ltac:(lia)) as (bs & Hbs & Hlen & _).
    destruct (varuint_roundtrip (N.of_nat (length l)) (bs ++ rest) Hl) as (h & Hh & Hd).
    rewrite Hh, Hbs. eexists; split; [reflexivity|]. split.
    { apply varuint_length in Hh. destruct h; [cbn in Hh; lia|discriminate]. }
    unfold dec_dict, dec_size. rewrite <- app_assoc, Hd. cbn [dbind].
    destruct (entries_rt l [] rest (S (length (bs ++ rest))) HP Hnd) as (bs' & Hbs' & _ & Hd').
    { rewrite app_length. lia. }
    rewrite Hbs in Hbs'. inversion Hbs'; subst bs'. exact Hd'.
  Qed.
End GuardedDict.

(* every value of every supported type round-trips, consuming exactly the bytes written *)
Theorem typed_roundtrip : forall t v rest, wf_val t v ->
  exists bs, enc_val t v = Some bs /\ bs <> [] /\ dec_val t (bs ++ rest) = DOk v rest.
Proof.
  induction t as [p|t IH|k t IH]; intros v rest Hw; destruct v; cbn [wf_val] in Hw; try contradiction.
  - cbn [enc_val dec_val]. destruct (enc_p_roundtrip p p0 rest Hw) as (b & Hb & Hd). exists b.
    rewrite Hd. split; auto. split; [eapply enc_p_nonempty; eauto|reflexivity].
  - destruct Hw as [Hall Hlen]. cbn [enc_val dec_val].
    destruct (seq_roundtrip_g (enc_val t) (dec_val t) (wf_val t)) with (l := l) (rest := rest) as (bs & Hbs & Hne & Hd); auto.
    { intros x r Hx. destruct (IH x r Hx) as (b & ? & ? & ?). eauto. }
    { intros x b Hx Hb. destruct (IH x [] Hx) as (b' & Hb' & ? & _). congruence. }
    exists bs. rewrite Hd. auto.
  - destruct Hw as (Hall & Hnd & Hlen). cbn [enc_val dec_val].
    destruct (dict_roundtrip_g k (enc_val t) (dec_val t) (wf_val t)) with (l := l) (rest := rest) as (bs & Hbs & Hne & Hd); auto.
    { intros x r Hx. destruct (IH x r Hx) as (b & ? & ? & ?). eauto. }
    exists bs. rewrite Hd. auto.
Qed.
