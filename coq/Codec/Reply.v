(* Decoders for the generator-reply types of slicec/src/definition_types.rs (GeneratedFile, Diagnostic,
   DiagnosticLevel) and the reply as read by main.rs::handle_generator_response.  Model only. *)
From Coq Require Import List NArith ZArith Bool.
From SliceV Require Import Base.Bytes Base.Utf8 Gen.VarintArms Codec.Wire.
Import ListNotations.
Open Scope N_scope.

Record genfile := { gf_path : list byte; gf_contents : list byte }.
Record gdiag := { gd_level : N; gd_message : list byte; gd_source : option (list byte) }.

Definition dec_generated_file (bs : list byte) : dres genfile :=
  dlet (p, r) <- dec_str bs ;; dlet (c, r1) <- dec_str r ;; dlet (u, r2) <- skip_tagged_fields r1 ;;
  DOk {| gf_path := p; gf_contents := c |} r2.
Definition dec_level (bs : list byte) : dres N :=
  dlet (v, r) <- dec_uint 1 bs ;; if v <=? 2 then DOk v r else DErr EIllegalValue.
Definition dec_diagnostic (bs : list byte) : dres gdiag :=
  dlet (has_source, r) <- dec_bool bs ;;
  dlet (lvl, r1) <- dec_level r ;;
  dlet (msg, r2) <- dec_str r1 ;;
  if has_source then
    dlet (src, r3) <- dec_str r2 ;; dlet (u, r4) <- skip_tagged_fields r3 ;;
    DOk {| gd_level := lvl; gd_message := msg; gd_source := Some src |} r4
  else
    dlet (u, r4) <- skip_tagged_fields r2 ;; DOk {| gd_level := lvl; gd_message := msg; gd_source := None |} r4.
(* two sequences: generated files, then diagnostics; trailing bytes are ignored by the caller *)
Definition dec_reply (bs : list byte) : dres (list genfile * list gdiag) :=
  dlet (fs, r) <- dec_seq dec_generated_file bs ;; dlet (ds, r1) <- dec_seq dec_diagnostic r ;; DOk (fs, ds) r1.
