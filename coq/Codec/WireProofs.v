(* Proofs about the integer codecs of Codec/Wire.v (C10). *)
From Coq Require Import List NArith ZArith Lia ZifyBool ZifyN ZifyNat Bool Znumtheory.
From SliceV Require Import Base.Bytes Base.Utf8 Gen.VarintArms Codec.Wire.
Import ListNotations.
Ltac Zify.zify_post_hook ::= Z.div_mod_to_equations.
Open Scope N_scope.

(* ---------- little-endian lists ---------- *)
Lemma le_bytes_len n v : length (le_bytes n v) = n.
Proof. revert v; induction n; simpl; auto. Qed.
Lemma of_le_le_bytes n v : v < 256 ^ N.of_nat n -> of_le (le_bytes n v) = v.
Proof.
  revert v; induction n as [|n IH]; intros v H.
  - simpl in *. lia.
  - cbn [le_bytes of_le]. rewrite IH.
    + pose proof (N.div_mod v 256). lia.
    + rewrite Nnat.Nat2N.inj_succ, N.pow_succ_r' in H. apply N.div_lt_upper_bound; lia.
Qed.
Lemma le_bytes_range n v : wf_bytes (le_bytes n v).
Proof. unfold wf_bytes. revert v; induction n; intros; cbn; constructor; auto. apply N.mod_lt; lia. Qed.
Lemma le_bytes_mod n x : le_bytes n (x mod 256 ^ N.of_nat n) = le_bytes n x.
Proof.
  revert x; induction n as [|n IH]; intros x; [reflexivity|].
  cbn [le_bytes]. rewrite Nnat.Nat2N.inj_succ, N.pow_succ_r'.
  assert (Hp : 256 ^ N.of_nat n <> 0) by (apply N.pow_nonzero; lia).
  rewrite N.mod_mul_r by lia.
  f_equal.
  - rewrite N.mul_comm, N.mod_add by lia. apply N.mod_mod; lia.
  - rewrite <- IH. rewrite <- (IH (x / 256)). f_equal.
    rewrite N.mul_comm, N.div_add by lia. rewrite N.div_small by (apply N.mod_lt; lia).
    rewrite N.add_0_l. apply N.mod_mod; lia.
Qed.
Lemma of_le_lt bs : wf_bytes bs -> of_le bs < 256 ^ N.of_nat (length bs).
Proof.
  induction 1 as [|b r Hb Hr IH]; [cbn; lia|].
  cbn [of_le length]. rewrite Nnat.Nat2N.inj_succ, N.pow_succ_r'. lia.
Qed.
Lemma le_bytes_of_le bs : wf_bytes bs -> le_bytes (length bs) (of_le bs) = bs.
Proof.
  induction 1 as [|b r Hb Hr IH]; [reflexivity|].
  cbn [of_le length le_bytes]. f_equal.
  - rewrite N.mul_comm, N.mod_add by lia. apply N.mod_small; lia.
  - rewrite N.mul_comm, N.div_add by lia. rewrite N.div_small by lia. exact IH.
Qed.

Lemma take_exact_app {A} (l r : list A) n : length l = n -> take_exact n (l ++ r) = Some (l, r).
Proof.
  intros <-. unfold take_exact. rewrite app_length.
  replace (Nat.leb (length l) (length l + length r)) with true by (symmetry; apply Nat.leb_le; lia).
  rewrite firstn_app, skipn_app, Nat.sub_diag, firstn_all, skipn_all. cbn. rewrite app_nil_r. reflexivity.
Qed.
Lemma take_exact_split {A} n (l h r : list A) : take_exact n l = Some (h, r) -> l = h ++ r /\ length h = n.
Proof.
  unfold take_exact. destruct (Nat.leb_spec n (length l)); [|discriminate].
  intros E; inversion E; subst. split; [symmetry; apply firstn_skipn|]. rewrite firstn_length. lia.
Qed.

(* ---------- fixed-width ---------- *)
Theorem uint_roundtrip n v rest : v < 256 ^ N.of_nat n -> dec_uint n (enc_uint n v ++ rest) = DOk v rest.
Proof. intros H. unfold dec_uint, enc_uint. rewrite take_exact_app by apply le_bytes_len. rewrite of_le_le_bytes; auto. Qed.

Lemma pow256 n : 256 ^ N.of_nat n = 2 ^ (8 * N.of_nat n).
Proof. change 256 with (2^8). rewrite <- N.pow_mul_r. reflexivity. Qed.
Lemma twos_lt n z : twos n z < 256 ^ N.of_nat n.
Proof.
  unfold twos. rewrite pow256.
  assert (0 < 2 ^ (8 * Z.of_nat n))%Z by (apply Z.pow_pos_nonneg; lia).
  pose proof (Z.mod_pos_bound z (2 ^ (8 * Z.of_nat n)) H).
  apply N2Z.inj_lt. rewrite Z2N.id by lia. rewrite N2Z.inj_pow.
  replace (Z.of_N (8 * N.of_nat n)) with (8 * Z.of_nat n)%Z by lia. change (Z.of_N 2) with 2%Z. lia.
Qed.
Lemma untwos_twos n z : (0 < n)%nat -> (- 2 ^ (8 * Z.of_nat n - 1) <= z < 2 ^ (8 * Z.of_nat n - 1))%Z ->
  untwos n (twos n z) = z.
Proof.
  intros Hn Hz. unfold untwos, twos.
  set (W := (8 * Z.of_nat n)%Z) in *.
  assert (HW: (2 ^ W = 2 * 2 ^ (W - 1))%Z).
  { replace W with (Z.succ (W - 1)) at 1 by lia. rewrite Z.pow_succ_r; lia. }
  assert (Hp: (0 < 2 ^ (W - 1))%Z) by (apply Z.pow_pos_nonneg; lia).
  assert (E: (2 ^ (8 * N.of_nat n - 1) = Z.to_N (2 ^ (W - 1)))%N).
  { apply N2Z.inj. rewrite Z2N.id by lia. rewrite N2Z.inj_pow. f_equal. subst W. lia. }
  rewrite E.
  destruct (Z.ltb_spec z 0).
  - assert (Hm: (z mod 2 ^ W = z + 2 ^ W)%Z).
    { symmetry. apply Z.mod_unique with (q := (-1)%Z); lia. }
    rewrite Hm.
    destruct (N.ltb_spec (Z.to_N (z + 2 ^ W)) (Z.to_N (2 ^ (W - 1)))); lia.
  - assert (Hm: (z mod 2 ^ W = z)%Z) by (apply Z.mod_small; lia).
    rewrite Hm.
    destruct (N.ltb_spec (Z.to_N z) (Z.to_N (2 ^ (W - 1)))); lia.
Qed.
Theorem int_roundtrip n z rest : (0 < n)%nat -> (- 2 ^ (8 * Z.of_nat n - 1) <= z < 2 ^ (8 * Z.of_nat n - 1))%Z ->
  dec_int n (enc_int n z ++ rest) = DOk z rest.
Proof.
  intros Hn Hz. unfold dec_int, enc_int. rewrite take_exact_app by apply le_bytes_len.
  rewrite of_le_le_bytes by apply twos_lt. rewrite untwos_twos; auto.
Qed.

(* little-endian two's complement, stated against the mathematical value *)
Theorem fixed_is_LE_twos_complement n z :
  of_le (enc_int n z) = Z.to_N (z mod 2 ^ (8 * Z.of_nat n)) /\ length (enc_int n z) = n.
Proof. unfold enc_int. rewrite le_bytes_len, of_le_le_bytes by apply twos_lt. auto. Qed.
Theorem fixed_is_LE n v : v < 256 ^ N.of_nat n -> of_le (enc_uint n v) = v /\ length (enc_uint n v) = n.
Proof. intros. unfold enc_uint. rewrite le_bytes_len, of_le_le_bytes; auto. Qed.

Theorem bool_roundtrip b rest : dec_bool (enc_bool b ++ rest) = DOk b rest.
Proof. destruct b; reflexivity. Qed.
Theorem bool_strict b rest v r : dec_bool (b :: rest) = DOk v r -> (b = 0 \/ b = 1) /\ r = rest.
Proof.
  unfold dec_bool. destruct (N.eqb_spec b 0); [intros E; inversion E; auto|].
  destruct (N.eqb_spec b 1); [intros E; inversion E; auto|discriminate].
Qed.

(* ---------- variable-width: the regenerated tables ---------- *)
Lemma size_le_lt v k : N.size v <= k -> v < 2 ^ k.
Proof. intros H. destruct (N.eq_dec v 0) as [->|Hz]. { apply N.neq_0_lt_0, N.pow_nonzero; lia. }
  pose proof (N.size_gt v). eapply N.lt_le_trans; [exact H0|]. apply N.pow_le_mono_r; lia. Qed.
Lemma lt_size_le v k : v < 2 ^ k -> N.size v <= k.
Proof. intros H. destruct (N.eq_dec v 0) as [->|Hz]; [cbn; lia|].
  rewrite N.size_log2 by exact Hz. apply N.le_succ_l. apply N.log2_lt_pow2; lia. Qed.

Definition code_of_width (n : nat) : N :=
  match n with 1%nat => 0 | 2%nat => 1 | 4%nat => 2 | _ => 3 end.

(* The only lemmas that look inside the regenerated encoder tables. *)
Lemma pick_cases_u bits n c : pick bits varuint_arms = Some (n, c) ->
  (n = 1%nat /\ c = 0 /\ bits <= 6) \/ (n = 2%nat /\ c = 1 /\ 6 < bits <= 14) \/
  (n = 4%nat /\ c = 2 /\ 14 < bits <= 30) \/ (n = 8%nat /\ c = 3 /\ 30 < bits <= 62).
Proof.
  unfold varuint_arms; cbn [pick].
  repeat match goal with
  | |- context [(?a <=? bits) && (bits <=? ?b)] =>
      destruct (N.leb_spec a bits); destruct (N.leb_spec bits b); cbn [andb]
  end; intros E; try discriminate; inversion E; lia.
Qed.
Lemma pick_none_u bits : pick bits varuint_arms = None <-> 62 < bits.
Proof.
  unfold varuint_arms; cbn [pick].
  repeat match goal with
  | |- context [(?a <=? bits) && (bits <=? ?b)] =>
      destruct (N.leb_spec a bits); destruct (N.leb_spec bits b); cbn [andb]
  end; split; intros E; try discriminate; try lia; auto.
Qed.
Lemma pick_cases_s bits n c : pick bits varint_arms = Some (n, c) ->
  (n = 1%nat /\ c = 0 /\ bits <= 6) \/ (n = 2%nat /\ c = 1 /\ 6 < bits <= 14) \/
  (n = 4%nat /\ c = 2 /\ 14 < bits <= 30) \/ (n = 8%nat /\ c = 3 /\ 30 < bits <= 62).
Proof.
  unfold varint_arms; cbn [pick].
  repeat match goal with
  | |- context [(?a <=? bits) && (bits <=? ?b)] =>
      destruct (N.leb_spec a bits); destruct (N.leb_spec bits b); cbn [andb]
  end; intros E; try discriminate; inversion E; lia.
Qed.
Lemma pick_none_s bits : pick bits varint_arms = None <-> 62 < bits.
Proof.
  unfold varint_arms; cbn [pick].
  repeat match goal with
  | |- context [(?a <=? bits) && (bits <=? ?b)] =>
      destruct (N.leb_spec a bits); destruct (N.leb_spec bits b); cbn [andb]
  end; split; intros E; try discriminate; try lia; auto.
Qed.
(* decoder tables: code -> width is the inverse of the encoder's width -> code, total on 0..3 *)
Lemma dec_width_u c : c < 4 -> exists w, lookup_width c varuint_dec_arms = Some w /\ code_of_width w = c
                                  /\ (w = 1 \/ w = 2 \/ w = 4 \/ w = 8)%nat.
Proof.
  intros H. assert (c = 0 \/ c = 1 \/ c = 2 \/ c = 3) as [->|[->|[->| ->]]] by lia;
  cbn; eexists; (split; [reflexivity|]); cbn; split; auto; lia.
Qed.
Lemma dec_width_s c : c < 4 -> exists w, lookup_width c varint_dec_arms = Some w /\ code_of_width w = c
                                  /\ (w = 1 \/ w = 2 \/ w = 4 \/ w = 8)%nat.
Proof.
  intros H. assert (c = 0 \/ c = 1 \/ c = 2 \/ c = 3) as [->|[->|[->| ->]]] by lia;
  cbn; eexists; (split; [reflexivity|]); cbn; split; auto; lia.
Qed.
Lemma gen_constants :
  varuint_enc_shift = 2 /\ varint_enc_shift = 2 /\ varuint_dec_shift = 2 /\ varint_dec_shift = 2 /\
  varuint_dec_mask = 3 /\ varint_dec_mask = 3 /\ varuint_sign_bit = 0 /\ varint_sign_bit = 1 /\
  varint_enc_casts_signed = true /\ varuint_enc_casts_unsigned = true /\
  varint_dec_signed = true /\ varuint_dec_unsigned = true /\
  varint_reject_from = 63 /\ varuint_reject_from = 63 /\
  VARUINT62_MAX = 2 ^ 62 - 1 /\ VARUINT62_MIN = 0 /\
  VARINT62_MIN = (- 2 ^ 61)%Z /\ VARINT62_MAX = (2 ^ 61 - 1)%Z.
Proof. repeat split; reflexivity. Qed.

(* ---------- bit lemmas ---------- *)
Lemma land3 b : N.land b 3 = b mod 4.
Proof. change 3 with (N.ones 2). rewrite N.land_ones. reflexivity. Qed.
Lemma lor_low x c : x mod 4 = 0 -> c < 4 -> N.lor x c = x + c.
Proof.
  intros Hx Hc.
  assert (Hland : N.land x c = 0).
  { apply N.bits_inj_0. intros n. rewrite N.land_spec.
    destruct (N.ltb_spec n 2).
    - replace (N.testbit x n) with false; [reflexivity|].
      symmetry. rewrite <- (N.mod_pow2_bits_low x 2 n) by lia. change (2 ^ 2) with 4. rewrite Hx. apply N.bits_0.
    - replace (N.testbit c n) with false; [apply andb_false_r|].
      symmetry. destruct (N.eq_dec c 0) as [->|Hc0]; [apply N.bits_0|].
      apply N.bits_above_log2. assert (N.log2 c < 2) by (apply N.log2_lt_pow2; lia). lia. }
  rewrite <- N.lxor_lor by exact Hland. symmetry. apply N.add_nocarry_lxor. exact Hland.
Qed.

Lemma hd_mod4 n x : (0 < n)%nat -> match le_bytes n x with b :: _ => b mod 4 = x mod 4 | [] => False end.
Proof. destruct n; [lia|]. intros _. cbn. change 256 with (4 * 64). rewrite N.mod_mul_r by lia.
  rewrite N.mul_comm, N.mod_add by lia. apply N.mod_mod; lia. Qed.

(* ---------- unsigned ---------- *)
Lemma dec_varuint_enc n c v rest :
  (n = 1 \/ n = 2 \/ n = 4 \/ n = 8)%nat -> c = code_of_width n ->
  4 * v + c < 256 ^ N.of_nat n -> dec_varuint (le_bytes n (4 * v + c) ++ rest) = DOk v rest.
Proof.
  intros Hn Hc Hb. assert (Hc4: c < 4) by (subst c; destruct Hn as [->|[->|[->| ->]]]; cbn; lia).
  assert (Hpos: (0 < n)%nat) by lia.
  pose proof (hd_mod4 n (4 * v + c) Hpos) as Hh.
  unfold dec_varuint. destruct (le_bytes n (4 * v + c)) as [|b bs'] eqn:E; [contradiction|].
  cbn [app]. destruct gen_constants as (_ & _ & Hsh & _ & Hmask & _). rewrite Hmask, Hsh.
  rewrite land3, Hh. replace ((4 * v + c) mod 4) with c by lia.
  destruct (dec_width_u c Hc4) as (w & Hw & Hcw & Hw4). rewrite Hw.
  assert (w = n).
  { subst c. destruct Hn as [->|[->|[->| ->]]]; destruct Hw4 as [->|[->|[->| ->]]]; cbn in Hcw; try discriminate; reflexivity. }
  subst w. change (b :: bs' ++ rest) with ((b :: bs') ++ rest). rewrite <- E.
  fold (enc_uint n (4 * v + c)). rewrite uint_roundtrip by exact Hb. cbn [dbind].
  rewrite N.shiftr_div_pow2. change (2 ^ 2) with 4. f_equal. lia.
Qed.

Lemma enc_varuint_shape v n c : pick (bits_u v) varuint_arms = Some (n, c) -> v < 2 ^ 62 ->
  c < 4 -> enc_varuint v = Some (le_bytes n (4 * v + c)).
Proof.
  intros E Hv Hc. unfold enc_varuint. rewrite E.
  destruct gen_constants as (Hsh & _). rewrite Hsh. change (2 ^ 2) with 4.
  rewrite N.mod_small by (change (2 ^ 64) with (4 * 2 ^ 62); lia).
  rewrite lor_low by lia. f_equal. f_equal. lia.
Qed.

Theorem varuint_roundtrip v rest : v < 2 ^ 62 ->
  exists bs, enc_varuint v = Some bs /\ dec_varuint (bs ++ rest) = DOk v rest.
Proof.
  intros Hv.
  destruct (pick (bits_u v) varuint_arms) as [[n c]|] eqn:E.
  2:{ apply pick_none_u in E. unfold bits_u in E. destruct gen_constants as (_&_&_&_&_&_&Hs&_).
      rewrite Hs in E. apply lt_size_le in Hv. lia. }
  pose proof E as E'. apply pick_cases_u in E' as [(-> & -> & H)|[(-> & -> & H)|[(-> & -> & H)|(-> & -> & H)]]].
  all: rewrite (enc_varuint_shape _ _ _ E Hv) by lia; eexists; split; [reflexivity|].
  all: apply dec_varuint_enc; [tauto|reflexivity|].
  all: unfold bits_u in H; destruct gen_constants as (_&_&_&_&_&_&Hs&_); rewrite Hs in H.
  all: destruct H as [_ H] || idtac; assert (Hs' : N.size v <= _) by (rewrite N.add_0_r in H; exact H);
       apply size_le_lt in Hs'.
  - change (256 ^ N.of_nat 1) with (2 ^ 8). change (2 ^ 6) with 64 in Hs'. lia.
  - change (256 ^ N.of_nat 2) with (2 ^ 16). change (2 ^ 14) with 16384 in Hs'. lia.
  - change (256 ^ N.of_nat 4) with (2 ^ 32). change (2 ^ 30) with 1073741824 in Hs'. lia.
  - change (256 ^ N.of_nat 8) with (2 ^ 64). lia.
Qed.

Theorem varuint_refuses v : 2 ^ 62 <= v -> enc_varuint v = None.
Proof.
  intros H. unfold enc_varuint.
  destruct (pick (bits_u v) varuint_arms) as [[n c]|] eqn:E; [|reflexivity].
  exfalso. apply pick_cases_u in E. unfold bits_u in E.
  destruct gen_constants as (_&_&_&_&_&_&Hs&_). rewrite Hs, N.add_0_r in E.
  assert (Hs': N.size v <= 62) by (destruct E as [(_&_&?)|[(_&_&?)|[(_&_&?)|(_&_&?)]]]; lia).
  apply size_le_lt in Hs'. lia.
Qed.

Theorem varuint_length v bs : enc_varuint v = Some bs ->
  (length bs = 1 \/ length bs = 2 \/ length bs = 4 \/ length bs = 8)%nat.
Proof.
  unfold enc_varuint. destruct (pick (bits_u v) varuint_arms) as [[n c]|] eqn:E; [|discriminate].
  intros H; inversion H; subst bs. rewrite le_bytes_len.
  apply pick_cases_u in E as [(-> & _)|[(-> & _)|[(-> & _)|(-> & _)]]]; auto.
Qed.

(* the shortest of 1, 2, 4, 8 bytes that holds the value shifted left by two *)
Theorem varuint_shortest v bs : enc_varuint v = Some bs ->
  forall m, (m = 1 \/ m = 2 \/ m = 4 \/ m = 8)%nat -> 4 * v + 3 < 256 ^ N.of_nat m -> (length bs <= m)%nat.
Proof.
  unfold enc_varuint. destruct (pick (bits_u v) varuint_arms) as [[n c]|] eqn:E; [|discriminate].
  intros H; inversion H; subst bs; clear H. rewrite le_bytes_len.
  intros m Hm Hfit. unfold bits_u in E. destruct gen_constants as (_&_&_&_&_&_&Hs&_). rewrite Hs, N.add_0_r in E.
  apply pick_cases_u in E as [(-> & -> & H)|[(-> & -> & H)|[(-> & -> & H)|(-> & -> & H)]]].
  - destruct Hm as [->|[->|[->| ->]]]; lia.
  - destruct H as [Hlo _]. destruct Hm as [->|[->|[->| ->]]]; try lia.
    exfalso. apply N.lt_nge in Hlo. apply Hlo. apply lt_size_le.
    change (256 ^ N.of_nat 1) with 256 in Hfit. change (2 ^ 6) with 64. lia.
  - destruct H as [Hlo _]. destruct Hm as [->|[->|[->| ->]]]; try lia.
    + exfalso. apply N.lt_nge in Hlo. apply Hlo. apply lt_size_le.
      change (256 ^ N.of_nat 1) with 256 in Hfit. change (2 ^ 14) with 16384. lia.
    + exfalso. apply N.lt_nge in Hlo. apply Hlo. apply lt_size_le.
      change (256 ^ N.of_nat 2) with 65536 in Hfit. change (2 ^ 14) with 16384. lia.
  - destruct H as [Hlo _]. destruct Hm as [->|[->|[->| ->]]]; try lia.
    + exfalso. apply N.lt_nge in Hlo. apply Hlo. apply lt_size_le.
      change (256 ^ N.of_nat 1) with 256 in Hfit. change (2 ^ 30) with 1073741824. lia.
    + exfalso. apply N.lt_nge in Hlo. apply Hlo. apply lt_size_le.
      change (256 ^ N.of_nat 2) with 65536 in Hfit. change (2 ^ 30) with 1073741824. lia.
    + exfalso. apply N.lt_nge in Hlo. apply Hlo. apply lt_size_le.
      change (256 ^ N.of_nat 4) with 4294967296 in Hfit. change (2 ^ 30) with 1073741824. lia.
Qed.

(* the two low bits of the first byte are the length code *)
Theorem varuint_low_bits v b bs : enc_varuint v = Some (b :: bs) -> b mod 4 = code_of_width (S (length bs)).
Proof.
  intros H. assert (Hv : v < 2 ^ 62).
  { destruct (N.lt_ge_cases v (2 ^ 62)); auto. rewrite varuint_refuses in H by auto. discriminate. }
  destruct (pick (bits_u v) varuint_arms) as [[n c]|] eqn:E.
  2:{ unfold enc_varuint in H. rewrite E in H. discriminate. }
  pose proof E as E'. apply pick_cases_u in E' as [(-> & -> & _)|[(-> & -> & _)|[(-> & -> & _)|(-> & -> & _)]]].
  all: rewrite (enc_varuint_shape _ _ _ E Hv) in H by lia.
  all: match type of H with Some (le_bytes ?n ?x) = _ =>
         assert (H1 : le_bytes n x = b :: bs) by congruence;
         pose proof (hd_mod4 n x ltac:(lia)) as Hh;
         pose proof (le_bytes_len n x) as Hl; rewrite H1 in Hh, Hl end.
  all: cbn [length] in Hl; injection Hl as Hl; rewrite Hl; rewrite Hh; cbn [code_of_width]; lia.
Qed.

(* ---------- signed ---------- *)
Lemma bits_s_range z k : (0 < k) -> bits_s z <= k -> (- 2 ^ (Z.of_N k - 1) <= z < 2 ^ (Z.of_N k - 1))%Z.
Proof.
  intros Hk H. unfold bits_s in H. destruct gen_constants as (_&_&_&_&_&_&_&Hs&_). rewrite Hs in H.
  assert (E: (2 ^ (Z.of_N k - 1) = Z.of_N (2 ^ (k - 1)))%Z).
  { rewrite N2Z.inj_pow. f_equal. lia. }
  rewrite E.
  destruct (Z.ltb_spec z 0).
  - assert (Hs': N.size (Z.to_N (- z - 1)) <= k - 1) by lia. apply size_le_lt in Hs'. lia.
  - assert (Hs': N.size (Z.to_N z) <= k - 1) by lia. apply size_le_lt in Hs'. lia.
Qed.
Lemma twos_add n z c : (0 < n)%nat -> c < 4 -> twos n (4 * z) + c = twos n (4 * z + Z.of_N c).
Proof.
  intros Hn Hc. unfold twos. set (W := (8 * Z.of_nat n)%Z).
  assert (HW: (2 ^ W = 4 * 2 ^ (W - 2))%Z).
  { replace W with (2 + (W - 2))%Z at 1 by lia. rewrite Z.pow_add_r by lia. reflexivity. }
  assert (Hp: (0 < 2 ^ (W - 2))%Z) by (apply Z.pow_pos_nonneg; lia).
  assert (Hm: ((4 * z + Z.of_N c) mod 2 ^ W = (4 * z) mod 2 ^ W + Z.of_N c)%Z).
  { rewrite HW. rewrite Z.mul_mod_distr_l by lia.
    symmetry. apply Z.mod_unique with (q := (z / 2 ^ (W - 2))%Z).
    - left. pose proof (Z.mod_pos_bound z (2 ^ (W - 2)) Hp). lia.
    - pose proof (Z.div_mod z (2 ^ (W - 2))). lia. }
  rewrite Hm. pose proof (Z.mod_pos_bound (4 * z) (2 ^ W)). lia.
Qed.
Lemma twos_mod4 n z : (0 < n)%nat -> twos n (4 * z) mod 4 = 0.
Proof.
  intros Hn. unfold twos. set (W := (8 * Z.of_nat n)%Z).
  assert (HW: (2 ^ W = 4 * 2 ^ (W - 2))%Z).
  { replace W with (2 + (W - 2))%Z at 1 by lia. rewrite Z.pow_add_r by lia. reflexivity. }
  assert (Hp: (0 < 2 ^ (W - 2))%Z) by (apply Z.pow_pos_nonneg; lia).
  rewrite HW, Z.mul_mod_distr_l by lia.
  pose proof (Z.mod_pos_bound z (2 ^ (W - 2)) Hp). lia.
Qed.
(* `x as iN` of an i64: only the low n bytes matter *)
Lemma twos_trunc n z : (n <= 8)%nat -> twos 8 z mod 256 ^ N.of_nat n = twos n z.
Proof.
  intros Hn. unfold twos. rewrite pow256.
  apply N2Z.inj. rewrite N2Z.inj_mod.
  assert (H64 : (0 < 2 ^ (8 * Z.of_nat 8))%Z) by (apply Z.pow_pos_nonneg; lia).
  assert (Hn' : (0 < 2 ^ (8 * Z.of_nat n))%Z) by (apply Z.pow_pos_nonneg; lia).
  rewrite !Z2N.id by (apply Z.mod_pos_bound; assumption).
  rewrite N2Z.inj_pow. replace (Z.of_N (8 * N.of_nat n)) with (8 * Z.of_nat n)%Z by lia.
  change (Z.of_N 2) with 2%Z.
  symmetry. apply Zmod_div_mod; try assumption.
  exists (2 ^ (8 * Z.of_nat 8 - 8 * Z.of_nat n))%Z. rewrite <- Z.pow_add_r by lia. f_equal. lia.
Qed.

Lemma dec_varint_enc n c z rest :
  (n = 1 \/ n = 2 \/ n = 4 \/ n = 8)%nat -> c = code_of_width n ->
  (- 2 ^ (8 * Z.of_nat n - 1) <= 4 * z + Z.of_N c < 2 ^ (8 * Z.of_nat n - 1))%Z ->
  dec_varint (le_bytes n (twos n (4 * z) + c) ++ rest) = DOk z rest.
Proof.
  intros Hn Hc Hr. assert (Hc4: c < 4) by (subst c; destruct Hn as [->|[->|[->| ->]]]; cbn; lia).
  assert (Hpos: (0 < n)%nat) by lia.
  assert (Hmod: (twos n (4 * z) + c) mod 4 = c).
  { pose proof (twos_mod4 n z Hpos). lia. }
  pose proof (hd_mod4 n (twos n (4 * z) + c) Hpos) as Hh.
  unfold dec_varint. destruct (le_bytes n (twos n (4 * z) + c)) as [|b bs'] eqn:E; [contradiction|].
  cbn [app]. destruct gen_constants as (_ & _ & _ & Hsh & _ & Hmask & _). rewrite Hmask, Hsh.
  rewrite land3, Hh, Hmod.
  destruct (dec_width_s c Hc4) as (w & Hw & Hcw & Hw4). rewrite Hw.
  assert (w = n).
  { subst c. destruct Hn as [->|[->|[->| ->]]]; destruct Hw4 as [->|[->|[->| ->]]]; cbn in Hcw; try discriminate; reflexivity. }
  subst w. change (b :: bs' ++ rest) with ((b :: bs') ++ rest). rewrite <- E.
  rewrite twos_add by auto.
  fold (enc_int n (4 * z + Z.of_N c)). rewrite int_roundtrip by auto. cbn [dbind].
  rewrite Z.shiftr_div_pow2 by lia. change (2 ^ Z.of_N 2)%Z with 4%Z. f_equal. lia.
Qed.

Lemma enc_varint_shape z n c : pick (bits_s z) varint_arms = Some (n, c) ->
  (n = 1 \/ n = 2 \/ n = 4 \/ n = 8)%nat -> c < 4 ->
  enc_varint z = Some (le_bytes n (twos n (4 * z) + c)).
Proof.
  intros E Hn Hc. unfold enc_varint. rewrite E.
  destruct gen_constants as (_ & Hsh & _). rewrite Hsh. change (2 ^ Z.of_N 2)%Z with 4%Z.
  replace (z * 4)%Z with (4 * z)%Z by lia.
  rewrite lor_low by (auto using twos_mod4 with arith; apply twos_mod4; lia).
  f_equal. rewrite <- (le_bytes_mod n (twos 8 (4 * z) + c)). f_equal.
  assert (Hp : 256 ^ N.of_nat n <> 0) by (apply N.pow_nonzero; lia).
  assert (Hc' : c < 256 ^ N.of_nat n).
  { destruct Hn as [->|[->|[->| ->]]]; cbn; lia. }
  rewrite N.add_mod by exact Hp. rewrite twos_trunc by lia.
  rewrite (N.mod_small c) by exact Hc'.
  apply N.mod_small.
  pose proof (twos_add n z c ltac:(lia) Hc) as Ha. rewrite Ha. apply twos_lt.
Qed.

Theorem varint_roundtrip z rest : (- 2 ^ 61 <= z < 2 ^ 61)%Z ->
  exists bs, enc_varint z = Some bs /\ dec_varint (bs ++ rest) = DOk z rest.
Proof.
  intros Hz.
  destruct (pick (bits_s z) varint_arms) as [[n c]|] eqn:E.
  2:{ apply pick_none_s in E. exfalso. unfold bits_s in E.
      destruct gen_constants as (_&_&_&_&_&_&_&Hs&_). rewrite Hs in E.
      destruct (Z.ltb_spec z 0).
      - assert (Z.to_N (- z - 1) < 2 ^ 61) by lia. apply lt_size_le in H0. lia.
      - assert (Z.to_N z < 2 ^ 61) by lia. apply lt_size_le in H0. lia. }
  pose proof E as E'. apply pick_cases_s in E' as [(-> & -> & H)|[(-> & -> & H)|[(-> & -> & H)|(-> & -> & H)]]].
  all: rewrite (enc_varint_shape _ _ _ E) by (tauto || lia); eexists; split; [reflexivity|].
  all: apply dec_varint_enc; [tauto|reflexivity|].
  - apply bits_s_range in H; [|lia].
    change (2 ^ (Z.of_N 6 - 1))%Z with 32%Z in H. change (2 ^ (8 * Z.of_nat 1 - 1))%Z with 128%Z. lia.
  - destruct H as [_ H]. apply bits_s_range in H; [|lia].
    change (2 ^ (Z.of_N 14 - 1))%Z with 8192%Z in H. change (2 ^ (8 * Z.of_nat 2 - 1))%Z with 32768%Z. lia.
  - destruct H as [_ H]. apply bits_s_range in H; [|lia].
    change (2 ^ (Z.of_N 30 - 1))%Z with 536870912%Z in H. change (2 ^ (8 * Z.of_nat 4 - 1))%Z with 2147483648%Z. lia.
  - destruct H as [_ H]. apply bits_s_range in H; [|lia].
    change (2 ^ (Z.of_N 62 - 1))%Z with 2305843009213693952%Z in H.
    change (2 ^ (8 * Z.of_nat 8 - 1))%Z with 9223372036854775808%Z. lia.
Qed.

Theorem varint_refuses z : (z < - 2 ^ 61 \/ 2 ^ 61 <= z)%Z -> enc_varint z = None.
Proof.
  intros H. unfold enc_varint.
  destruct (pick (bits_s z) varint_arms) as [[n c]|] eqn:E; [|reflexivity].
  exfalso. apply pick_cases_s in E.
  assert (Hs: bits_s z <= 62) by (destruct E as [(_&_&?)|[(_&_&?)|[(_&_&?)|(_&_&?)]]]; lia).
  apply bits_s_range in Hs; [|lia]. change (2 ^ (Z.of_N 62 - 1))%Z with (2 ^ 61)%Z in Hs. lia.
Qed.

Theorem varint_length z bs : enc_varint z = Some bs ->
  (length bs = 1 \/ length bs = 2 \/ length bs = 4 \/ length bs = 8)%nat.
Proof.
  unfold enc_varint. destruct (pick (bits_s z) varint_arms) as [[n c]|] eqn:E; [|discriminate].
  intros H; inversion H; subst bs. rewrite le_bytes_len.
  apply pick_cases_s in E as [(-> & _)|[(-> & _)|[(-> & _)|(-> & _)]]]; auto.
Qed.

(* shortest width: no narrower two's-complement width in {1,2,4,8} holds 4z+3 (and 4z) *)
Theorem varint_shortest z bs : enc_varint z = Some bs ->
  forall m, (m = 1 \/ m = 2 \/ m = 4 \/ m = 8)%nat ->
  (- 2 ^ (8 * Z.of_nat m - 1) <= 4 * z /\ 4 * z + 3 < 2 ^ (8 * Z.of_nat m - 1))%Z -> (length bs <= m)%nat.
Proof.
  unfold enc_varint. destruct (pick (bits_s z) varint_arms) as [[n c]|] eqn:E; [|discriminate].
  intros H; inversion H; subst bs; clear H. rewrite le_bytes_len.
  intros m Hm Hfit.
  assert (Hbits : forall k, 0 < k -> (- 2 ^ (Z.of_N k - 1) <= z < 2 ^ (Z.of_N k - 1))%Z -> bits_s z <= k).
  { intros k Hk Hr. unfold bits_s. destruct gen_constants as (_&_&_&_&_&_&_&Hs&_). rewrite Hs.
    assert (E2: (2 ^ (Z.of_N k - 1) = Z.of_N (2 ^ (k - 1)))%Z) by (rewrite N2Z.inj_pow; f_equal; lia).
    rewrite E2 in Hr.
    destruct (Z.ltb_spec z 0).
    - assert (Z.to_N (- z - 1) < 2 ^ (k - 1)) by lia. apply lt_size_le in H0. lia.
    - assert (Z.to_N z < 2 ^ (k - 1)) by lia. apply lt_size_le in H0. lia. }
  apply pick_cases_s in E as [(-> & -> & H)|[(-> & -> & H)|[(-> & -> & H)|(-> & -> & H)]]].
  - destruct Hm as [->|[->|[->| ->]]]; lia.
  - destruct H as [Hlo _]. destruct Hm as [->|[->|[->| ->]]]; try lia.
    exfalso. apply N.lt_nge in Hlo. apply Hlo. apply Hbits; [lia|].
    change (2 ^ (8 * Z.of_nat 1 - 1))%Z with 128%Z in Hfit. change (2 ^ (Z.of_N 6 - 1))%Z with 32%Z. lia.
  - destruct H as [Hlo _]. destruct Hm as [->|[->|[->| ->]]]; try lia.
    + exfalso. apply N.lt_nge in Hlo. apply Hlo. apply Hbits; [lia|].
      change (2 ^ (8 * Z.of_nat 1 - 1))%Z with 128%Z in Hfit. change (2 ^ (Z.of_N 14 - 1))%Z with 8192%Z. lia.
    + exfalso. apply N.lt_nge in Hlo. apply Hlo. apply Hbits; [lia|].
      change (2 ^ (8 * Z.of_nat 2 - 1))%Z with 32768%Z in Hfit. change (2 ^ (Z.of_N 14 - 1))%Z with 8192%Z. lia.
  - destruct H as [Hlo _]. destruct Hm as [->|[->|[->| ->]]]; try lia.
    + exfalso. apply N.lt_nge in Hlo. apply Hlo. apply Hbits; [lia|].
      change (2 ^ (8 * Z.of_nat 1 - 1))%Z with 128%Z in Hfit. change (2 ^ (Z.of_N 30 - 1))%Z with 536870912%Z. lia.
    + exfalso. apply N.lt_nge in Hlo. apply Hlo. apply Hbits; [lia|].
      change (2 ^ (8 * Z.of_nat 2 - 1))%Z with 32768%Z in Hfit. change (2 ^ (Z.of_N 30 - 1))%Z with 536870912%Z. lia.
    + exfalso. apply N.lt_nge in Hlo. apply Hlo. apply Hbits; [lia|].
      change (2 ^ (8 * Z.of_nat 4 - 1))%Z with 2147483648%Z in Hfit. change (2 ^ (Z.of_N 30 - 1))%Z with 536870912%Z. lia.
Qed.
