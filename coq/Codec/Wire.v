(* Executable model of slice-codec's encoders and decoders (encoding.rs, decoding.rs,
   decode_from.rs).  Model only; proofs are in WireProofs.v / DecodeProofs.v.

   Conventions: a byte is an N below 256; an encoder returns `option (list byte)` (None = the
   value is refused with an error); a decoder returns `dres`, carrying the unread rest.
   The width arms, masks, shifts and the 62-bit limits come from Gen/VarintArms.v, which
   tools/regen.py regenerates from the Rust sources on every run. *)
From Coq Require Import List NArith ZArith Bool.
From SliceV Require Import Base.Bytes Base.Utf8 Gen.VarintArms.
Import ListNotations.
Open Scope N_scope. Open Scope bool_scope.

Inductive derr :=
| EEob            (* ErrorKind::UnexpectedEob *)
| EIllegalBool    (* InvalidData(IllegalValue) from bool *)
| EOutOfRange     (* InvalidData(OutOfRange) *)
| EInvalidUtf8    (* InvalidData(InvalidString) *)
| EDupKey         (* duplicate dictionary key *)
| EIllegalValue   (* other InvalidData(IllegalValue), e.g. bad enumerator *)
| EFuel.          (* model artefact: never produced when fuel = S (length input) *)

Inductive dres (A : Type) := DOk (a : A) (rest : list byte) | DErr (e : derr).
Arguments DOk {A}. Arguments DErr {A}.

Definition dbind {A B} (r : dres A) (f : A -> list byte -> dres B) : dres B :=
  match r with DOk a rest => f a rest | DErr e => DErr e end.
Notation "'dlet' ( x , r ) <- e ;; k" := (dbind e (fun x r => k))
  (at level 200, x name, r name, e at level 100, k at level 200).

(* ---------- fixed-width ---------- *)
Definition enc_bool (b : bool) : list byte := [if b then 1 else 0].
Definition dec_bool (bs : list byte) : dres bool :=
  match bs with
  | [] => DErr EEob
  | b :: r => if b =? 0 then DOk false r else if b =? 1 then DOk true r else DErr EIllegalBool
  end.

Definition enc_uint (n : nat) (v : N) : list byte := le_bytes n v.
Definition enc_int (n : nat) (z : Z) : list byte := le_bytes n (twos n z).
Definition dec_uint (n : nat) (bs : list byte) : dres N :=
  match take_exact n bs with Some (h, r) => DOk (of_le h) r | None => DErr EEob end.
Definition dec_int (n : nat) (bs : list byte) : dres Z :=
  match take_exact n bs with Some (h, r) => DOk (untwos n (of_le h)) r | None => DErr EEob end.
(* f32/f64 are handled as their IEEE-754 bit patterns: `to_le_bytes` of a float is
   `to_le_bytes` of `to_bits`; enc_float = enc_uint 4 / enc_uint 8 on the bits. *)

(* ---------- variable-width ---------- *)
Fixpoint pick (bits : N) (a : list (N * N * nat * N)) : option (nat * N) :=
  match a with
  | [] => None
  | (lo, hi, w, c) :: r => if (lo <=? bits) && (bits <=? hi) then Some (w, c) else pick bits r
  end.
(* u64::BITS - leading_zeros *)
Definition bits_u (v : N) : N := N.size v + varuint_sign_bit.
(* i64::BITS - leading_zeros / leading_ones, plus the sign bit *)
Definition bits_s (z : Z) : N :=
  (if (z <? 0)%Z then N.size (Z.to_N (- z - 1)) else N.size (Z.to_N z)) + varint_sign_bit.

(* `value << shift` in u64 / i64 (wrapping), `as uN` by le_bytes' truncation, `| code` *)
Definition enc_varuint (v : N) : option (list byte) :=
  match pick (bits_u v) varuint_arms with
  | Some (w, c) => Some (le_bytes w (N.lor ((v * 2 ^ varuint_enc_shift) mod 2 ^ 64) c))
  | None => None
  end.
Definition enc_varint (z : Z) : option (list byte) :=
  match pick (bits_s z) varint_arms with
  | Some (w, c) => Some (le_bytes w (N.lor (twos 8 (z * 2 ^ Z.of_N varint_enc_shift)) c))
  | None => None
  end.
Definition enc_size := enc_varuint.

Fixpoint lookup_width (c : N) (a : list (N * nat)) : option nat :=
  match a with [] => None | (k, w) :: r => if c =? k then Some w else lookup_width c r end.

(* decode_varuint::<u64> *)
Definition dec_varuint (bs : list byte) : dres N :=
  match bs with
  | [] => DErr EEob
  | b :: _ =>
    match lookup_width (N.land b varuint_dec_mask) varuint_dec_arms with
    | Some w => dlet (u, r) <- dec_uint w bs ;; DOk (N.shiftr u varuint_dec_shift) r
    | None => DErr EFuel (* unreachable_unchecked: excluded by dec_arms_total *)
    end
  end.
(* decode_varint::<i64> *)
Definition dec_varint (bs : list byte) : dres Z :=
  match bs with
  | [] => DErr EEob
  | b :: _ =>
    match lookup_width (N.land b varint_dec_mask) varint_dec_arms with
    | Some w => dlet (z, r) <- dec_int w bs ;; DOk (Z.shiftr z (Z.of_N varint_dec_shift)) r
    | None => DErr EFuel
    end
  end.
(* decode_varuint::<T> / decode_varint::<T> for a narrower T: `T::try_from(value)` *)
Definition dec_varuint_max (max : N) (bs : list byte) : dres N :=
  dlet (v, r) <- dec_varuint bs ;; if v <=? max then DOk v r else DErr EOutOfRange.
Definition dec_varint_in (lo hi : Z) (bs : list byte) : dres Z :=
  dlet (z, r) <- dec_varint bs ;; if ((lo <=? z) && (z <=? hi))%Z then DOk z r else DErr EOutOfRange.
Definition dec_size := dec_varuint.   (* usize is 64 bits on the supported targets *)

(* ---------- strings ---------- *)
(* A Rust `String` is modelled by its UTF-8 bytes. *)
Definition enc_str (s : list byte) : option (list byte) :=
  match enc_size (N.of_nat (length s)) with Some h => Some (h ++ s) | None => None end.
Definition take_n (n : N) (bs : list byte) : option (list byte * list byte) :=
  if n <=? N.of_nat (length bs) then Some (firstn (N.to_nat n) bs, skipn (N.to_nat n) bs) else None.
(* the string decoder checks that `length` bytes remain before it reserves them *)
Definition str_reservation (bs : list byte) : option N :=
  match dec_size bs with DOk n r => if n <=? N.of_nat (length r) then Some n else Some 0 | DErr _ => None end.
Definition dec_str (bs : list byte) : dres (list byte) :=
  dlet (n, r) <- dec_size bs ;;
  match take_n n r with
  | Some (s, r') => if utf8_valid s then DOk s r' else DErr EInvalidUtf8
  | None => DErr EEob
  end.

(* ---------- sequences and dictionaries over an element codec ---------- *)
Section Collections.
  Context {A : Type} (enc_e : A -> option (list byte)) (dec_e : list byte -> dres A).

  Fixpoint enc_items (l : list A) : option (list byte) :=
    match l with
    | [] => Some []
    | x :: r => match enc_e x, enc_items r with Some a, Some b => Some (a ++ b) | _, _ => None end
    end.
  Definition enc_seq (l : list A) : option (list byte) :=
    match enc_size (N.of_nat (length l)), enc_items l with Some h, Some b => Some (h ++ b) | _, _ => None end.

  (* `for _ in 0..length { decoder.decode()? }`.  The loop count is data (up to 2^62), so the
     model recurses on fuel; every element decoder consumes at least one byte, hence
     fuel = S (length input) is never exhausted before the loop fails with EEob. *)
  Fixpoint dec_items (fuel : nat) (count : N) (bs : list byte) : dres (list A) :=
    if count =? 0 then DOk [] bs else
    match fuel with
    | O => DErr EFuel
    | S f => dlet (x, r) <- dec_e bs ;; dlet (xs, r') <- dec_items f (count - 1) r ;; DOk (x :: xs) r'
    end.
  Definition dec_seq (bs : list byte) : dres (list A) :=
    dlet (n, r) <- dec_size bs ;; dec_items (S (length r)) n r.
  (* what `try_reserve_exact` is asked for, in elements: the announced count, capped by the bytes that remain
     (every element takes at least one byte) *)
  Definition seq_reservation (bs : list byte) : option N :=
    match dec_size bs with DOk n r => Some (N.min n (N.of_nat (length r))) | DErr _ => None end.
End Collections.

Section Dict.
  Context {K V : Type} (keq : K -> K -> bool).
  Context (enc_k : K -> option (list byte)) (dec_k : list byte -> dres K).
  Context (enc_v : V -> option (list byte)) (dec_v : list byte -> dres V).

  Definition enc_pair (kv : K * V) : option (list byte) :=
    match enc_k (fst kv), enc_v (snd kv) with Some a, Some b => Some (a ++ b) | _, _ => None end.
  Definition dec_pair (bs : list byte) : dres (K * V) :=
    dlet (k, r) <- dec_k bs ;; dlet (v, r') <- dec_v r ;; DOk (k, v) r'.
  (* entries in iteration order of the map (an oracle for HashMap, key order for BTreeMap) *)
  Definition enc_dict (l : list (K * V)) : option (list byte) := enc_seq enc_pair l.

  Definition has_key (k : K) (l : list (K * V)) : bool := existsb (fun kv => keq k (fst kv)) l.
  (* `map.insert(key, value)` returning Some(old) on a repeated key => error *)
  Fixpoint dec_entries (fuel : nat) (count : N) (acc : list (K * V)) (bs : list byte) : dres (list (K * V)) :=
    if count =? 0 then DOk (rev acc) bs else
    match fuel with
    | O => DErr EFuel
    | S f => dlet (kv, r) <- dec_pair bs ;;
             if has_key (fst kv) acc then DErr EDupKey else dec_entries f (count - 1) (kv :: acc) r
    end.
  Definition dec_dict (bs : list byte) : dres (list (K * V)) :=
    dlet (n, r) <- dec_size bs ;; dec_entries (S (length r)) n [] r.
End Dict.

(* ---------- tagged fields ---------- *)
Definition TAG_END_MARKER : Z := (-1)%Z.
Definition I32_MIN : Z := (-2147483648)%Z.
Definition I32_MAX : Z := 2147483647%Z.
(* skip_tagged_fields: `while decode_varint::<i32>()? != TAG_END_MARKER { size; skip }` *)
Fixpoint skip_tagged (fuel : nat) (bs : list byte) : dres unit :=
  match fuel with
  | O => DErr EFuel
  | S f =>
    dlet (t, r) <- dec_varint_in I32_MIN I32_MAX bs ;;
    if (t =? TAG_END_MARKER)%Z then DOk tt r else
    dlet (n, r1) <- dec_size r ;;
    match take_n n r1 with Some (_, r2) => skip_tagged f r2 | None => DErr EEob end
  end.
Definition skip_tagged_fields (bs : list byte) : dres unit := skip_tagged (S (length bs)) bs.
