(* A universe of the supported Slice types with a generic codec; the closure of the
   round-trip under nesting is then one theorem by induction on the type (TypedProofs.v). *)
From Coq Require Import List NArith ZArith Bool.
From SliceV Require Import Base.Bytes Base.Utf8 Gen.VarintArms Codec.Wire.
Import ListNotations.
Open Scope N_scope. Open Scope bool_scope.

(* primitive (key-capable) types and values *)
Inductive pty := PBool | PU (n : nat) | PI (n : nat) | PVarU | PVarI | PStr.
Inductive pval := KBool (b : bool) | KN (v : N) | KZ (z : Z) | KStr (s : list byte).
Inductive ty := TP (p : pty) | TSeq (t : ty) | TDict (k : pty) (v : ty).
Inductive val := VP (p : pval) | VSeq (l : list val) | VDict (l : list (pval * val)).

Fixpoint bytes_eqb (a b : list byte) : bool :=
  match a, b with [], [] => true | x :: a', y :: b' => (x =? y) && bytes_eqb a' b' | _, _ => false end.
Definition pval_eqb (a b : pval) : bool :=
  match a, b with
  | KBool x, KBool y => Bool.eqb x y
  | KN x, KN y => x =? y
  | KZ x, KZ y => (x =? y)%Z
  | KStr x, KStr y => bytes_eqb x y
  | _, _ => false
  end.

Definition enc_p (p : pty) (v : pval) : option (list byte) :=
  match p, v with
  | PBool, KBool b => Some (enc_bool b)
  | PU n, KN v => Some (enc_uint n v)
  | PI n, KZ z => Some (enc_int n z)
  | PVarU, KN v => enc_varuint v
  | PVarI, KZ z => enc_varint z
  | PStr, KStr s => enc_str s
  | _, _ => None
  end.
Definition dmap {A B} (f : A -> B) (r : dres A) : dres B :=
  match r with DOk a rest => DOk (f a) rest | DErr e => DErr e end.
Definition dec_p (p : pty) (bs : list byte) : dres pval :=
  match p with
  | PBool => dmap KBool (dec_bool bs)
  | PU n => dmap KN (dec_uint n bs)
  | PI n => dmap KZ (dec_int n bs)
  | PVarU => dmap KN (dec_varuint bs)
  | PVarI => dmap KZ (dec_varint bs)
  | PStr => dmap KStr (dec_str bs)
  end.

Fixpoint enc_val (t : ty) : val -> option (list byte) :=
  match t with
  | TP p => fun v => match v with VP x => enc_p p x | _ => None end
  | TSeq t' => fun v => match v with VSeq l => enc_seq (enc_val t') l | _ => None end
  | TDict k t' => fun v => match v with VDict l => enc_dict (enc_p k) (enc_val t') l | _ => None end
  end.
Fixpoint dec_val (t : ty) : list byte -> dres val :=
  match t with
  | TP p => fun bs => dmap VP (dec_p p bs)
  | TSeq t' => fun bs => dmap VSeq (dec_seq (dec_val t') bs)
  | TDict k t' => fun bs => dmap VDict (dec_dict pval_eqb (dec_p k) (dec_val t') bs)
  end.

(* the values of a type (what a Rust value of the corresponding type can be) *)
Definition wf_p (p : pty) (v : pval) : Prop :=
  match p, v with
  | PBool, KBool _ => True
  | PU n, KN v => (0 < n)%nat /\ v < 256 ^ N.of_nat n
  | PI n, KZ z => (0 < n)%nat /\ (- 2 ^ (8 * Z.of_nat n - 1) <= z < 2 ^ (8 * Z.of_nat n - 1))%Z
  | PVarU, KN v => v < 2 ^ 62
  | PVarI, KZ z => (- 2 ^ 61 <= z < 2 ^ 61)%Z
  | PStr, KStr s => utf8_valid s = true /\ N.of_nat (length s) < 2 ^ 62 /\ wf_bytes s
  | _, _ => False
  end.
Fixpoint wf_val (t : ty) : val -> Prop :=
  match t with
  | TP p => fun v => match v with VP x => wf_p p x | _ => False end
  | TSeq t' => fun v => match v with VSeq l => Forall (wf_val t') l /\ N.of_nat (length l) < 2 ^ 62 | _ => False end
  | TDict k t' => fun v => match v with
      | VDict l => Forall (fun kv => wf_p k (fst kv) /\ wf_val t' (snd kv)) l /\ NoDup (map fst l)
                   /\ N.of_nat (length l) < 2 ^ 62
      | _ => False end
  end.
