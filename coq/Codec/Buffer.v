(* Executable model of slice-codec's buffers (buffer/slice.rs, buffer/vec.rs) and the append-only
   log they are specified by (C12).  Reservations are held by the client; a history refers to the
   i-th reservation handed out.  Model only; proofs in BufferProofs.v. *)
From Coq Require Import List Arith NArith.
From SliceV Require Import Base.Bytes.
Import ListNotations.
Open Scope nat_scope.

Inductive op :=
| WByte (b : byte)                    (* write_byte *)
| WBytes (bs : list byte)             (* write_bytes_exact *)
| Reserve (k : nat)                   (* reserve_space *)
| WRes (r : nat) (bs : list byte).    (* write_bytes_into_reserved_exact on the r-th reservation *)
Inductive out := Done | Eob | BadRes.

Definition put (l : list byte) (at_ : nat) (bs : list byte) : list byte :=
  firstn at_ l ++ bs ++ skipn (at_ + length bs) l.
Fixpoint set_nth {A} (l : list A) (i : nat) (x : A) : list A :=
  match l, i with [], _ => [] | _ :: r, O => x :: r | y :: r, S j => y :: set_nth r j x end.

(* ---------- SliceOutputTarget: fixed buffer, cursor ---------- *)
Record tgt := { buf : list byte; pos : nat; res : list (nat * nat) }.
Definition write_at (t : tgt) (bs : list byte) : tgt * out :=
  if Nat.leb (length bs) (length (buf t) - pos t)      (* does_buffer_have_at_least *)
  then ({| buf := put (buf t) (pos t) bs; pos := pos t + length bs; res := res t |}, Done)
  else (t, Eob).
Definition bstep (t : tgt) (o : op) : tgt * out :=
  match o with
  | WByte b => write_at t [b]
  | WBytes bs => write_at t bs
  | Reserve k =>
      if Nat.leb k (length (buf t) - pos t)
      then ({| buf := buf t; pos := pos t + k; res := res t ++ [(pos t, pos t + k)] |}, Done)
      else (t, Eob)
  | WRes r bs =>
      match nth_error (res t) r with
      | None => (t, BadRes)
      | Some (s, e) =>
          if Nat.leb (length bs) (e - s)
          then ({| buf := put (buf t) s bs; pos := pos t; res := set_nth (res t) r (s + length bs, e) |}, Done)
          else (t, Eob)
      end
  end.

(* ---------- VecOutputTarget: growable; allocation succeeds (oracle, see trusted base) ---------- *)
Record vtgt := { vbytes : list byte; vres : list (nat * nat) }.
Definition vstep (t : vtgt) (o : op) : vtgt * out :=
  match o with
  | WByte b => ({| vbytes := vbytes t ++ [b]; vres := vres t |}, Done)
  | WBytes bs => ({| vbytes := vbytes t ++ bs; vres := vres t |}, Done)
  | Reserve k => ({| vbytes := vbytes t ++ repeat 0%N k;
                     vres := vres t ++ [(length (vbytes t), length (vbytes t) + k)] |}, Done)
  | WRes r bs =>
      match nth_error (vres t) r with
      | None => (t, BadRes)
      | Some (s, e) =>
          if Nat.leb (length bs) (e - s)
          then ({| vbytes := put (vbytes t) s bs; vres := set_nth (vres t) r (s + length bs, e) |}, Done)
          else (t, Eob)
      end
  end.

(* ---------- SliceInputSource ---------- *)
Record src := { ibuf : list byte; ipos : nat }.
Inductive rop := Peek1 | Read1 | PeekK (k : nat) | ReadK (k : nat).
Inductive rout := Bytes (bs : list byte) | REob.
Definition rstep (s : src) (o : rop) : src * rout :=
  let k := match o with Peek1 | Read1 => 1 | PeekK k | ReadK k => k end in
  let consume := match o with Read1 | ReadK _ => true | _ => false end in
  if Nat.leb k (length (ibuf s) - ipos s)
  then ((if consume then {| ibuf := ibuf s; ipos := ipos s + k |} else s), Bytes (firstn k (skipn (ipos s) (ibuf s))))
  else (s, REob).

(* ---------- specification: an append-only log of segments ---------- *)
Inductive seg := Seg (d : list byte) | Hole (filled remaining : list byte).
Definition rend (s : seg) : list byte := match s with Seg d => d | Hole f r => f ++ r end.
Definition render (l : list seg) : list byte := flat_map rend l.
Record alog := { segs : list seg; tail : list byte }.
Fixpoint fill (l : list seg) (r : nat) (bs : list byte) : option (list seg) :=
  match l with
  | [] => None
  | Seg d :: rest => option_map (cons (Seg d)) (fill rest r bs)
  | Hole f rm :: rest =>
      match r with
      | O => if Nat.leb (length bs) (length rm) then Some (Hole (f ++ bs) (skipn (length bs) rm) :: rest) else None
      | S j => option_map (cons (Hole f rm)) (fill rest j bs)
      end
  end.
Fixpoint holes (l : list seg) : nat :=
  match l with [] => 0 | Seg _ :: r => holes r | Hole _ _ :: r => S (holes r) end.
Definition append (a : alog) (bs : list byte) : alog * out :=
  if Nat.leb (length bs) (length (tail a))
  then ({| segs := segs a ++ [Seg bs]; tail := skipn (length bs) (tail a) |}, Done) else (a, Eob).
(* fixed target: the log can grow only into `tail`, the not-yet-written rest of the buffer *)
Definition astep (a : alog) (o : op) : alog * out :=
  match o with
  | WByte b => append a [b]
  | WBytes bs => append a bs
  | Reserve k => if Nat.leb k (length (tail a))
                 then ({| segs := segs a ++ [Hole [] (firstn k (tail a))]; tail := skipn k (tail a) |}, Done) else (a, Eob)
  | WRes r bs => if Nat.ltb r (holes (segs a))
                 then match fill (segs a) r bs with Some s' => ({| segs := s'; tail := tail a |}, Done) | None => (a, Eob) end
                 else (a, BadRes)
  end.
(* growable target: appends always succeed, reservations are zero-filled *)
Definition vastep (a : list seg) (o : op) : list seg * out :=
  match o with
  | WByte b => (a ++ [Seg [b]], Done)
  | WBytes bs => (a ++ [Seg bs], Done)
  | Reserve k => (a ++ [Hole [] (repeat 0%N k)], Done)
  | WRes r bs => if Nat.ltb r (holes a)
                 then match fill a r bs with Some s' => (s', Done) | None => (a, Eob) end
                 else (a, BadRes)
  end.
(* the still-unwritten range of every hole, in order *)
Fixpoint ranges (off : nat) (l : list seg) : list (nat * nat) :=
  match l with
  | [] => []
  | Seg d :: r => ranges (off + length d) r
  | Hole f rm :: r => (off + length f, off + length f + length rm) :: ranges (off + length f + length rm) r
  end.
Definition R (t : tgt) (a : alog) : Prop :=
  buf t = render (segs a) ++ tail a /\ pos t = length (render (segs a)) /\ res t = ranges 0 (segs a).
Definition Rv (t : vtgt) (a : list seg) : Prop :=
  vbytes t = render a /\ vres t = ranges 0 a.

(* histories *)
Fixpoint run (t : tgt) (ops : list op) : tgt * list out :=
  match ops with [] => (t, []) | o :: r => let '(t', x) := bstep t o in let '(t'', xs) := run t' r in (t'', x :: xs) end.
Fixpoint arun (a : alog) (ops : list op) : alog * list out :=
  match ops with [] => (a, []) | o :: r => let '(a', x) := astep a o in let '(a'', xs) := arun a' r in (a'', x :: xs) end.
Fixpoint vrun (t : vtgt) (ops : list op) : vtgt * list out :=
  match ops with [] => (t, []) | o :: r => let '(t', x) := vstep t o in let '(t'', xs) := vrun t' r in (t'', x :: xs) end.
Fixpoint varun (a : list seg) (ops : list op) : list seg * list out :=
  match ops with [] => (a, []) | o :: r => let '(a', x) := vastep a o in let '(a'', xs) := varun a' r in (a'', x :: xs) end.
Definition init (b : list byte) : tgt := {| buf := b; pos := 0; res := [] |}.
Definition ainit (b : list byte) : alog := {| segs := []; tail := b |}.
Definition vinit (b : list byte) : vtgt := {| vbytes := b; vres := [] |}.
