(* Truncation: a decoder that succeeds on some bytes gives the same value when more bytes follow ("extension stable"), hence
   it cannot succeed on a strict prefix of what it consumed.  Lifted through every decoder of the generator reply: every
   strict prefix of the consumed part of a valid reply is rejected (C18, C11). *)
From Coq Require Import List NArith ZArith Lia Bool Arith.
From SliceV Require Import Base.Bytes Base.Utf8 Gen.VarintArms Codec.Wire Codec.WireProofs Codec.CollProofs Codec.DecodeProofs
  Codec.Reply Codec.ReplyProofs.
Import ListNotations.
Local Open Scope nat_scope.

Definition ext_stable {A} (d : list byte -> dres A) : Prop :=
  forall bs v r x, d bs = DOk v r -> d (bs ++ x) = DOk v (r ++ x).

(* the general argument *)
Theorem strict_prefix_rejected {A} (d : list byte -> dres A) : ext_stable d ->
  forall pre r v, d (pre ++ r) = DOk v r ->
  forall p q, pre = p ++ q -> q <> [] -> forall v' r', d p <> DOk v' r'.
Proof.
  intros Hs pre r v Hd p q -> Hq v' r' Hp.
  apply (Hs _ _ _ (q ++ r)) in Hp. rewrite app_assoc in Hp. rewrite Hp in Hd. inversion Hd as [[Hv Hr]].
  apply (f_equal (@length byte)) in Hr. rewrite !app_length in Hr. destruct q; [congruence|cbn in Hr; lia].
Qed.

Lemma take_exact_ext {A} n (l h r x : list A) : take_exact n l = Some (h, r) -> take_exact n (l ++ x) = Some (h, r ++ x).
Proof.
  intros H. destruct (take_exact_split _ _ _ _ H) as [-> Hl]. rewrite <- app_assoc. apply take_exact_app. exact Hl.
Qed.
Lemma take_n_ext n (l h r x : list byte) : take_n n l = Some (h, r) -> take_n n (l ++ x) = Some (h, r ++ x).
Proof.
  intros H. destruct (take_n_split _ _ _ _ H) as [-> Hl]. rewrite <- app_assoc. rewrite <- Hl. apply take_n_app.
Qed.

Lemma dbind_ext {A B} (d : list byte -> dres A) (k : A -> list byte -> dres B) :
  ext_stable d -> (forall a, ext_stable (k a)) -> ext_stable (fun bs => dbind (d bs) k).
Proof.
  intros Hd Hk bs v r x H. destruct (d bs) as [a r0|e] eqn:E; cbn [dbind] in H; [|discriminate].
  rewrite (Hd _ _ _ x E). cbn [dbind]. apply Hk. exact H.
Qed.

Lemma dec_bool_ext : ext_stable dec_bool.
Proof.
  intros bs v r x H. destruct bs as [|b t]; cbn in *; [discriminate|].
  destruct (N.eqb b 0); [inversion H; reflexivity|]. destruct (N.eqb b 1); [inversion H; reflexivity|discriminate].
Qed.
Lemma dec_uint_ext n : ext_stable (dec_uint n).
Proof.
  intros bs v r x H. unfold dec_uint in *. destruct (take_exact n bs) as [[h t]|] eqn:E; [|discriminate].
  rewrite (take_exact_ext _ _ _ _ x E). inversion H; reflexivity.
Qed.
Lemma dec_int_ext n : ext_stable (dec_int n).
Proof.
  intros bs v r x H. unfold dec_int in *. destruct (take_exact n bs) as [[h t]|] eqn:E; [|discriminate].
  rewrite (take_exact_ext _ _ _ _ x E). inversion H; reflexivity.
Qed.
Lemma dec_varuint_ext : ext_stable dec_varuint.
Proof.
  intros bs v r x H. destruct bs as [|b t]; [discriminate|]. cbn [app]. unfold dec_varuint in *.
  destruct (lookup_width (N.land b varuint_dec_mask) varuint_dec_arms) as [w|]; [|discriminate].
  destruct (dec_uint w (b :: t)) as [u r0|] eqn:E; cbn [dbind] in H; [|discriminate].
  change (b :: t ++ x) with ((b :: t) ++ x). rewrite (dec_uint_ext w _ _ _ x E). cbn [dbind]. inversion H; reflexivity.
Qed.
Lemma dec_varint_ext : ext_stable dec_varint.
Proof.
  intros bs v r x H. destruct bs as [|b t]; [discriminate|]. cbn [app]. unfold dec_varint in *.
  destruct (lookup_width (N.land b varint_dec_mask) varint_dec_arms) as [w|]; [|discriminate].
  destruct (dec_int w (b :: t)) as [u r0|] eqn:E; cbn [dbind] in H; [|discriminate].
  change (b :: t ++ x) with ((b :: t) ++ x). rewrite (dec_int_ext w _ _ _ x E). cbn [dbind]. inversion H; reflexivity.
Qed.
Lemma dec_varint_in_ext lo hi : ext_stable (dec_varint_in lo hi).
Proof.
  intros bs v r x H. unfold dec_varint_in in *. destruct (dec_varint bs) as [z r0|] eqn:E; cbn [dbind] in H; [|discriminate].
  rewrite (dec_varint_ext _ _ _ x E). cbn [dbind]. destruct ((lo <=? z)%Z && (z <=? hi)%Z); [inversion H; reflexivity|discriminate].
Qed.
Lemma dec_size_ext : ext_stable dec_size.
Proof. exact dec_varuint_ext. Qed.
Lemma dec_str_ext : ext_stable dec_str.
Proof.
  intros bs v r x H. unfold dec_str in *. destruct (dec_size bs) as [n r0|] eqn:E; cbn [dbind] in H; [|discriminate].
  rewrite (dec_size_ext _ _ _ x E). cbn [dbind]. destruct (take_n n r0) as [[s r1]|] eqn:Et; [|discriminate].
  rewrite (take_n_ext _ _ _ _ x Et). destruct (utf8_valid s); [inversion H; reflexivity|discriminate].
Qed.

(* the fuelled loops: success is independent of any larger fuel and of what follows *)
Lemma skip_tagged_ext : forall f bs r x f', skip_tagged f bs = DOk tt r -> f <= f' -> skip_tagged f' (bs ++ x) = DOk tt (r ++ x).
Proof.
  induction f as [|f IH]; intros bs r x f' H Hf; [discriminate|]. destruct f' as [|f']; [lia|]. cbn [skip_tagged] in *.
  destruct (dec_varint_in I32_MIN I32_MAX bs) as [t r0|] eqn:E; cbn [dbind] in H; [|discriminate].
  rewrite (dec_varint_in_ext _ _ _ _ _ x E). cbn [dbind].
  destruct (t =? TAG_END_MARKER)%Z; [inversion H; reflexivity|].
  destruct (dec_size r0) as [n r1|] eqn:E1; cbn [dbind] in H; [|discriminate].
  rewrite (dec_size_ext _ _ _ x E1). cbn [dbind].
  destruct (take_n n r1) as [[s r2]|] eqn:Et; [|discriminate]. rewrite (take_n_ext _ _ _ _ x Et).
  apply IH; [exact H|lia].
Qed.
Lemma skip_tagged_fields_ext : ext_stable skip_tagged_fields.
Proof.
  intros bs [] r x H. unfold skip_tagged_fields in *. eapply skip_tagged_ext; [exact H|]. rewrite app_length. lia.
Qed.

Lemma dec_items_ext {A} (d : list byte -> dres A) : ext_stable d ->
  forall f n bs v r x f', dec_items d f n bs = DOk v r -> f <= f' -> dec_items d f' n (bs ++ x) = DOk v (r ++ x).
Proof.
  intros Hd. induction f as [|f IH]; intros n bs v r x f' H Hf.
  - cbn [dec_items] in H. destruct (N.eqb n 0) eqn:En; [|discriminate]. inversion H; subst.
    destruct f'; cbn [dec_items]; rewrite En; reflexivity.
  - destruct f' as [|f']; [lia|]. cbn [dec_items] in *. destruct (N.eqb n 0); [inversion H; reflexivity|].
    destruct (d bs) as [a r0|] eqn:E; cbn [dbind] in H; [|discriminate]. rewrite (Hd _ _ _ x E). cbn [dbind].
    destruct (dec_items d f (n - 1) r0) as [xs r1|] eqn:E1; cbn [dbind] in H; [|discriminate].
    rewrite (IH _ _ _ _ x f' E1) by lia. cbn [dbind]. inversion H; reflexivity.
Qed.
Lemma dec_seq_ext {A} (d : list byte -> dres A) : ext_stable d -> ext_stable (dec_seq d).
Proof.
  intros Hd bs v r x H. unfold dec_seq in *. destruct (dec_size bs) as [n r0|] eqn:E; cbn [dbind] in H; [|discriminate].
  rewrite (dec_size_ext _ _ _ x E). cbn [dbind]. eapply dec_items_ext; [exact Hd|exact H|]. rewrite app_length. lia.
Qed.

Lemma genfile_ext : ext_stable dec_generated_file.
Proof.
  intros bs v r x H. unfold dec_generated_file in *.
  destruct (dec_str bs) as [p r0|] eqn:E0; cbn [dbind] in H; [|discriminate]. rewrite (dec_str_ext _ _ _ x E0). cbn [dbind].
  destruct (dec_str r0) as [c r1|] eqn:E1; cbn [dbind] in H; [|discriminate]. rewrite (dec_str_ext _ _ _ x E1). cbn [dbind].
  destruct (skip_tagged_fields r1) as [u r2|] eqn:E2; cbn [dbind] in H; [|discriminate].
  rewrite (skip_tagged_fields_ext _ _ _ x E2). cbn [dbind]. inversion H; reflexivity.
Qed.
Lemma level_ext : ext_stable dec_level.
Proof.
  intros bs v r x H. unfold dec_level in *. destruct (dec_uint 1 bs) as [l r0|] eqn:E; cbn [dbind] in H; [|discriminate].
  rewrite (dec_uint_ext _ _ _ _ x E). cbn [dbind]. destruct (N.leb l 2); [inversion H; reflexivity|discriminate].
Qed.
Lemma diag_ext : ext_stable dec_diagnostic.
Proof.
  intros bs v r x H. unfold dec_diagnostic in *.
  destruct (dec_bool bs) as [hs r0|] eqn:E0; cbn [dbind] in H; [|discriminate]. rewrite (dec_bool_ext _ _ _ x E0). cbn [dbind].
  destruct (dec_level r0) as [l r1|] eqn:E1; cbn [dbind] in H; [|discriminate]. rewrite (level_ext _ _ _ x E1). cbn [dbind].
  destruct (dec_str r1) as [m r2|] eqn:E2; cbn [dbind] in H; [|discriminate]. rewrite (dec_str_ext _ _ _ x E2). cbn [dbind].
  destruct hs.
  - destruct (dec_str r2) as [s r3|] eqn:E3; cbn [dbind] in H; [|discriminate]. rewrite (dec_str_ext _ _ _ x E3). cbn [dbind].
    destruct (skip_tagged_fields r3) as [u r4|] eqn:E4; cbn [dbind] in H; [|discriminate].
    rewrite (skip_tagged_fields_ext _ _ _ x E4). cbn [dbind]. inversion H; reflexivity.
  - destruct (skip_tagged_fields r2) as [u r4|] eqn:E4; cbn [dbind] in H; [|discriminate].
    rewrite (skip_tagged_fields_ext _ _ _ x E4). cbn [dbind]. inversion H; reflexivity.
Qed.
Theorem reply_ext : ext_stable dec_reply.
Proof.
  intros bs v r x H. unfold dec_reply in *.
  destruct (dec_seq dec_generated_file bs) as [fs r0|] eqn:E0; cbn [dbind] in H; [|discriminate].
  rewrite (dec_seq_ext _ genfile_ext _ _ _ x E0). cbn [dbind].
  destruct (dec_seq dec_diagnostic r0) as [ds r1|] eqn:E1; cbn [dbind] in H; [|discriminate].
  rewrite (dec_seq_ext _ diag_ext _ _ _ x E1). cbn [dbind]. inversion H; reflexivity.
Qed.

(* every strict prefix of the part of a reply that the decoder consumed is rejected with a decoding error (never the model's
   fuel artefact); bytes after the consumed part do not matter *)
Theorem truncated_reply_rejected bs v r : dec_reply bs = DOk v r ->
  forall k, k < length bs - length r -> exists e, dec_reply (firstn k bs) = DErr e /\ e <> EFuel.
Proof.
  intros H k Hk. destruct (proj2 reply_total_prefix _ _ _ H) as (pre & -> & _).
  rewrite app_length in Hk. rewrite firstn_app. replace (k - length pre) with 0 by lia. cbn [firstn]. rewrite app_nil_r.
  destruct (dec_reply (firstn k pre)) as [v' r'|e] eqn:E.
  - exfalso. eapply (strict_prefix_rejected dec_reply reply_ext pre r v H (firstn k pre) (skipn k pre)); [symmetry; apply firstn_skipn| |exact E].
    intros Hn. apply (f_equal (@length byte)) in Hn. rewrite skipn_length in Hn. cbn in Hn. lia.
  - exists e. split; [reflexivity|]. intros ->. exact (proj1 reply_total_prefix _ E).
Qed.
(* and so is a decodable value: the same holds for any single string, size or sequence (used by C11) *)
Theorem truncated_string_rejected s r bs : dec_str bs = DOk s r -> forall k, k < length bs - length r -> exists e, dec_str (firstn k bs) = DErr e.
Proof.
  intros H k Hk. destruct (dec_str_consumes _ _ _ H) as (pre & -> & _).
  rewrite app_length in Hk. rewrite firstn_app. replace (k - length pre) with 0 by lia. cbn [firstn]. rewrite app_nil_r.
  destruct (dec_str (firstn k pre)) as [v' r'|e] eqn:E; [|eauto].
  exfalso. eapply (strict_prefix_rejected dec_str dec_str_ext pre r s H (firstn k pre) (skipn k pre)); [symmetry; apply firstn_skipn| |exact E].
  intros Hn. apply (f_equal (@length byte)) in Hn. rewrite skipn_length in Hn. cbn in Hn. lia.
Qed.

(* ---------- the typed codec: every decodable type, nested to any depth ---------- *)
From SliceV Require Import Codec.Typed Codec.TypedProofs.
Local Open Scope nat_scope.
Lemma dmap_ext {A B} (f : A -> B) (d : list byte -> dres A) : ext_stable d -> ext_stable (fun bs => dmap f (d bs)).
Proof.
  intros Hd bs v r x H. destruct (d bs) as [a r0|] eqn:E; cbn [dmap] in H; [|discriminate].
  rewrite (Hd _ _ _ x E). cbn [dmap]. inversion H; reflexivity.
Qed.
Lemma dec_p_ext p : ext_stable (dec_p p).
Proof.
  destruct p; cbn [dec_p]; apply dmap_ext.
  - exact dec_bool_ext. - apply dec_uint_ext. - apply dec_int_ext. - exact dec_varuint_ext. - exact dec_varint_ext. - exact dec_str_ext.
Qed.
Lemma dec_pair_ext {K V} (dk : list byte -> dres K) (dv : list byte -> dres V) : ext_stable dk -> ext_stable dv -> ext_stable (dec_pair dk dv).
Proof.
  intros Hk Hv bs v r x H. unfold dec_pair in *. destruct (dk bs) as [k r0|] eqn:E0; cbn [dbind] in H; [|discriminate].
  rewrite (Hk _ _ _ x E0). cbn [dbind]. destruct (dv r0) as [w r1|] eqn:E1; cbn [dbind] in H; [|discriminate].
  rewrite (Hv _ _ _ x E1). cbn [dbind]. inversion H; reflexivity.
Qed.
Lemma dec_entries_ext {K V} keq (dk : list byte -> dres K) (dv : list byte -> dres V) : ext_stable dk -> ext_stable dv ->
  forall f n acc bs v r x f', dec_entries keq dk dv f n acc bs = DOk v r -> f <= f' -> dec_entries keq dk dv f' n acc (bs ++ x) = DOk v (r ++ x).
Proof.
  intros Hk Hv. induction f as [|f IH]; intros n acc bs v r x f' H Hf.
  - cbn [dec_entries] in H. destruct (N.eqb n 0) eqn:En; [|discriminate]. inversion H; subst.
    destruct f'; cbn [dec_entries]; rewrite En; reflexivity.
  - destruct f' as [|f']; [lia|]. cbn [dec_entries] in *. destruct (N.eqb n 0); [inversion H; reflexivity|].
    destruct (dec_pair dk dv bs) as [kv r0|] eqn:E; cbn [dbind] in H; [|discriminate].
    rewrite (dec_pair_ext dk dv Hk Hv _ _ _ x E). cbn [dbind].
    destruct (has_key keq (fst kv) acc); [discriminate|]. apply IH; [exact H|lia].
Qed.
Lemma dec_dict_ext {K V} keq (dk : list byte -> dres K) (dv : list byte -> dres V) : ext_stable dk -> ext_stable dv -> ext_stable (dec_dict keq dk dv).
Proof.
  intros Hk Hv bs v r x H. unfold dec_dict in *. destruct (dec_size bs) as [n r0|] eqn:E; cbn [dbind] in H; [|discriminate].
  rewrite (dec_size_ext _ _ _ x E). cbn [dbind]. eapply dec_entries_ext; [exact Hk|exact Hv|exact H|]. rewrite app_length. lia.
Qed.
Theorem dec_val_ext : forall t, ext_stable (dec_val t).
Proof.
  induction t as [p|t IH|k t IH]; cbn [dec_val].
  - apply dmap_ext. apply dec_p_ext.
  - apply dmap_ext. apply dec_seq_ext. exact IH.
  - apply dmap_ext. apply dec_dict_ext; [apply dec_p_ext|exact IH].
Qed.
(* a value that decodes from some bytes does not decode from any strict prefix of the bytes it consumed: a buffer cut anywhere
   inside an encoded value is an error, never a shorter value *)
Theorem truncated_value_rejected t : wf_ty t -> forall bs v r, dec_val t bs = DOk v r ->
  forall k, k < length bs - length r -> exists e, dec_val t (firstn k bs) = DErr e /\ e <> EFuel.
Proof.
  intros Hw bs v r H k Hk. destruct (dec_val_total_prefix t Hw) as [Hc Hf]. destruct (Hc _ _ _ H) as (pre & -> & _).
  rewrite app_length in Hk. rewrite firstn_app. replace (k - length pre) with 0 by lia. cbn [firstn]. rewrite app_nil_r.
  destruct (dec_val t (firstn k pre)) as [v' r'|e] eqn:E.
  - exfalso. eapply (strict_prefix_rejected (dec_val t) (dec_val_ext t) pre r v H (firstn k pre) (skipn k pre)); [symmetry; apply firstn_skipn| |exact E].
    intros Hn. apply (f_equal (@length byte)) in Hn. rewrite skipn_length in Hn. cbn in Hn. lia.
  - exists e. split; [reflexivity|]. intros ->. exact (Hf _ E).
Qed.
(* what was decoded does not depend on what follows it in the buffer *)
Theorem decoded_value_independent_of_rest t bs v r x : dec_val t bs = DOk v r -> dec_val t (bs ++ x) = DOk v (r ++ x).
Proof. apply dec_val_ext. Qed.
