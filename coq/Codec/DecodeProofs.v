(* C11: decoders are total, consume a strict prefix, are strict about what they accept, and their cost is
   bounded by the length of the input. *)
From Coq Require Import List NArith ZArith Lia ZifyBool ZifyN ZifyNat Bool.
From SliceV Require Import Base.Bytes Base.Utf8 Gen.VarintArms Codec.Wire Codec.WireProofs Codec.CollProofs Codec.Typed Codec.TypedProofs.
Import ListNotations.
Open Scope N_scope.

(* a successful decode returns a proper suffix of its input: it read a non-empty prefix and nothing else *)
Definition consumes {A} (d : list byte -> dres A) : Prop :=
  forall bs v r, d bs = DOk v r -> exists pre, bs = pre ++ r /\ pre <> [].
Definition nofuel {A} (d : list byte -> dres A) : Prop := forall bs, d bs <> DErr EFuel.

Lemma consumes_len {A} (d : list byte -> dres A) bs v r : consumes d -> d bs = DOk v r -> (length r < length bs)%nat.
Proof. intros H E. destruct (H _ _ _ E) as (pre & -> & Hne). rewrite app_length. destruct pre; [congruence|cbn; lia]. Qed.

Lemma dec_bool_consumes : consumes dec_bool.
Proof.
  intros [|b r] v r' H; cbn in H; [discriminate|].
  destruct (b =? 0); [inversion H; subst; exists [b]; split; auto; discriminate|].
  destruct (b =? 1); [inversion H; subst; exists [b]; split; auto; discriminate|discriminate].
Qed.
Lemma dec_uint_consumes n : (0 < n)%nat -> consumes (dec_uint n).
Proof.
  intros Hn bs v r H. unfold dec_uint in H. destruct (take_exact n bs) as [[h t]|] eqn:E; [|discriminate].
  inversion H; subst. apply take_exact_split in E as [-> Hl]. exists h. split; auto. destruct h; [cbn in Hl; lia|discriminate].
Qed.
Lemma dec_int_consumes n : (0 < n)%nat -> consumes (dec_int n).
Proof.
  intros Hn bs v r H. unfold dec_int in H. destruct (take_exact n bs) as [[h t]|] eqn:E; [|discriminate].
  inversion H; subst. apply take_exact_split in E as [-> Hl]. exists h. split; auto. destruct h; [cbn in Hl; lia|discriminate].
Qed.
Lemma lookup_width_pos_u c w : lookup_width c varuint_dec_arms = Some w -> (0 < w)%nat.
Proof. unfold varuint_dec_arms. cbn. repeat (destruct (c =? _); [intros E; inversion E; lia|]). discriminate. Qed.
Lemma lookup_width_pos_s c w : lookup_width c varint_dec_arms = Some w -> (0 < w)%nat.
Proof. unfold varint_dec_arms. cbn. repeat (destruct (c =? _); [intros E; inversion E; lia|]). discriminate. Qed.
Lemma dec_varuint_consumes : consumes dec_varuint.
Proof.
  intros [|b bs] v r H; cbn [dec_varuint] in H; [discriminate|].
  destruct (lookup_width _ _) as [w|] eqn:E; [|discriminate].
  destruct (dec_uint w (b :: bs)) as [u r'|] eqn:E2; cbn [dbind] in H; [|discriminate]. inversion H; subst.
  exact (dec_uint_consumes w (lookup_width_pos_u _ _ E) _ _ _ E2).
Qed.
Lemma dec_varint_consumes : consumes dec_varint.
Proof.
  intros [|b bs] v r H; cbn [dec_varint] in H; [discriminate|].
  destruct (lookup_width _ _) as [w|] eqn:E; [|discriminate].
  destruct (dec_int w (b :: bs)) as [u r'|] eqn:E2; cbn [dbind] in H; [|discriminate]. inversion H; subst.
  exact (dec_int_consumes w (lookup_width_pos_s _ _ E) _ _ _ E2).
Qed.
(* the mask leaves a code below 4, and every code below 4 has an arm: the `unreachable_unchecked` branch is dead *)
Lemma land_mask_lt b : N.land b varuint_dec_mask < 4 /\ N.land b varint_dec_mask < 4.
Proof. destruct gen_constants as (_&_&_&_&Hm1&Hm2&_). rewrite Hm1, Hm2, land3. split; apply N.mod_lt; lia. Qed.
Lemma dec_varuint_nofuel : nofuel dec_varuint.
Proof.
  intros [|b bs]; cbn [dec_varuint]; [discriminate|].
  destruct (dec_width_u _ (proj1 (land_mask_lt b))) as (w & Hw & _). rewrite Hw.
  unfold dec_uint. destruct (take_exact w (b :: bs)) as [[h t]|]; cbn; discriminate.
Qed.
Lemma dec_varint_nofuel : nofuel dec_varint.
Proof.
  intros [|b bs]; cbn [dec_varint]; [discriminate|].
  destruct (dec_width_s _ (proj2 (land_mask_lt b))) as (w & Hw & _). rewrite Hw.
  unfold dec_int. destruct (take_exact w (b :: bs)) as [[h t]|]; cbn; discriminate.
Qed.
Lemma dec_str_consumes : consumes dec_str.
Proof.
  intros bs v r H. unfold dec_str in H. destruct (dec_size bs) as [n r1|] eqn:E; cbn [dbind] in H; [|discriminate].
  destruct (take_n n r1) as [[s r2]|] eqn:E2; [|discriminate]. destruct (utf8_valid s); [|discriminate]. inversion H; subst.
  apply dec_varuint_consumes in E as (pre & -> & Hne). apply take_n_split in E2 as [-> _].
  exists (pre ++ v). rewrite <- app_assoc. split; auto. destruct pre; [congruence|discriminate].
Qed.
Lemma dec_str_nofuel : nofuel dec_str.
Proof.
  intros bs. unfold dec_str. pose proof (dec_varuint_nofuel bs) as Hn. unfold dec_size.
  destruct (dec_varuint bs) as [n r|e]; cbn [dbind]; [|congruence].
  destruct (take_n n r) as [[s r']|]; [destruct (utf8_valid s)|]; discriminate.
Qed.

(* out-of-range variable-width integers are refused, not truncated *)
Theorem varint_range_strict lo hi bs z r : dec_varint_in lo hi bs = DOk z r -> (lo <= z <= hi)%Z.
Proof.
  unfold dec_varint_in. destruct (dec_varint bs) as [v r'|]; cbn [dbind]; [|discriminate].
  destruct ((lo <=? v)%Z && (v <=? hi)%Z) eqn:E; [|discriminate]. intros H; inversion H; subst. lia.
Qed.
Theorem varuint_range_strict mx bs v r : dec_varuint_max mx bs = DOk v r -> v <= mx.
Proof.
  unfold dec_varuint_max. destruct (dec_varuint bs) as [x r'|]; cbn [dbind]; [|discriminate].
  destruct (x <=? mx) eqn:E; [|discriminate]. intros H; inversion H; subst. lia.
Qed.

Section Items.
  Context {A : Type} (d : list byte -> dres A).
  Hypothesis Hc : consumes d.
  Hypothesis Hf : nofuel d.

  Lemma dec_items_spec : forall fuel count bs, (length bs < fuel)%nat ->
    dec_items d fuel count bs <> DErr EFuel /\
    forall l r, dec_items d fuel count bs = DOk l r ->
      exists pre, bs = pre ++ r /\ N.of_nat (length l) = count /\ (length l <= length pre)%nat.
  Proof.
    induction fuel as [|f IH]; intros count bs Hlen; [lia|].
    cbn [dec_items]. destruct (N.eqb_spec count 0) as [->|Hnz].
    { split; [discriminate|]. intros l r H; inversion H; subst. exists []. cbn. auto. }
    pose proof (Hf bs) as Hfb.
    destruct (d bs) as [x r1|e] eqn:E; cbn [dbind]; [|split; [congruence|discriminate]].
    pose proof (consumes_len d _ _ _ Hc E) as Hl1.
    destruct (IH (count - 1) r1 ltac:(lia)) as [Hnf Hok].
    destruct (dec_items d f (count - 1) r1) as [xs r2|e] eqn:E2; cbn [dbind]; [|split; [congruence|discriminate]].
    split; [discriminate|]. intros l r H; inversion H; subst.
    destruct (Hok xs r eq_refl) as (pre2 & -> & Hcnt & Hle).
    destruct (Hc _ _ _ E) as (pre1 & -> & Hne).
    exists (pre1 ++ pre2). rewrite <- app_assoc. split; auto. cbn [length]. split; [lia|].
    rewrite app_length. destruct pre1; [congruence|cbn; lia].
  Qed.

  Lemma dec_seq_consumes : consumes (dec_seq d).
  Proof.
    intros bs l r H. unfold dec_seq in H. destruct (dec_size bs) as [n r1|] eqn:E; cbn [dbind] in H; [|discriminate].
    destruct (dec_items_spec (S (length r1)) n r1 ltac:(lia)) as [_ Hok].
    destruct (Hok _ _ H) as (pre2 & -> & _). apply dec_varuint_consumes in E as (pre & -> & Hne).
    exists (pre ++ pre2). rewrite <- app_assoc. split; auto. destruct pre; [congruence|discriminate].
  Qed.
  Lemma dec_seq_nofuel : nofuel (dec_seq d).
  Proof.
    intros bs. unfold dec_seq, dec_size. pose proof (dec_varuint_nofuel bs).
    destruct (dec_varuint bs) as [n r|e]; cbn [dbind]; [|congruence].
    apply (dec_items_spec (S (length r)) n r). lia.
  Qed.
  (* the loop cannot run more often than there are bytes: time is governed by the input, not by the announced size *)
  Theorem dec_seq_length_bound bs l r : dec_seq d bs = DOk l r -> (length l < length bs)%nat.
  Proof.
    intros H. unfold dec_seq in H. destruct (dec_size bs) as [n r1|] eqn:E; cbn [dbind] in H; [|discriminate].
    destruct (dec_items_spec (S (length r1)) n r1 ltac:(lia)) as [_ Hok].
    destruct (Hok _ _ H) as (pre2 & -> & _ & Hle). apply dec_varuint_consumes in E as (pre & -> & Hne).
    rewrite !app_length. destruct pre; [congruence|cbn; lia].
  Qed.
  (* what is reserved before the loop never exceeds the bytes that remain *)
  Theorem seq_reservation_bounded bs n : seq_reservation bs = Some n -> n <= N.of_nat (length bs).
  Proof.
    unfold seq_reservation. destruct (dec_size bs) as [k r|] eqn:E; [|discriminate]. intros Hs; inversion Hs; subst.
    apply dec_varuint_consumes in E as (pre & -> & _). rewrite app_length. lia.
  Qed.
End Items.
Theorem str_reservation_bounded bs n : str_reservation bs = Some n -> n <= N.of_nat (length bs).
Proof.
  unfold str_reservation. destruct (dec_size bs) as [k r|] eqn:E; [|discriminate].
  apply dec_varuint_consumes in E as (pre & -> & _). rewrite app_length.
  destruct (N.leb_spec k (N.of_nat (length r))); intros Hs; inversion Hs; subst; lia.
Qed.

Section Entries.
  Context {K V : Type} (keq : K -> K -> bool) (dk : list byte -> dres K) (dv : list byte -> dres V).
  Hypothesis Hck : consumes dk. Hypothesis Hfk : nofuel dk.
  Hypothesis Hcv : consumes dv. Hypothesis Hfv : nofuel dv.
  Lemma dec_pair_consumes : consumes (dec_pair dk dv).
  Proof.
    intros bs [k v] r H. unfold dec_pair in H. destruct (dk bs) as [k' r1|] eqn:E1; cbn [dbind] in H; [|discriminate].
    destruct (dv r1) as [v' r2|] eqn:E2; cbn [dbind] in H; [|discriminate]. inversion H; subst.
    destruct (Hck _ _ _ E1) as (p1 & -> & Hne). destruct (Hcv _ _ _ E2) as (p2 & -> & _).
    exists (p1 ++ p2). rewrite <- app_assoc. split; auto. destruct p1; [congruence|discriminate].
  Qed.
  Lemma dec_pair_nofuel : nofuel (dec_pair dk dv).
  Proof.
    intros bs. unfold dec_pair. pose proof (Hfk bs). destruct (dk bs) as [k r|e]; cbn [dbind]; [|congruence].
    pose proof (Hfv r). destruct (dv r) as [v r'|e]; cbn [dbind]; [discriminate|congruence].
  Qed.
  Lemma dec_entries_spec : forall fuel count acc bs, (length bs < fuel)%nat ->
    dec_entries keq dk dv fuel count acc bs <> DErr EFuel /\
    forall l r, dec_entries keq dk dv fuel count acc bs = DOk l r ->
      exists pre, bs = pre ++ r /\ (length l <= length acc + length pre)%nat.
  Proof.
    induction fuel as [|f IH]; intros count acc bs Hlen; [lia|].
    cbn [dec_entries]. destruct (N.eqb_spec count 0) as [->|Hnz].
    { split; [discriminate|]. intros l r H; inversion H; subst. exists []. rewrite rev_length. cbn. split; auto. lia. }
    pose proof (dec_pair_nofuel bs) as Hfb.
    destruct (dec_pair dk dv bs) as [x r1|e] eqn:E; cbn [dbind]; [|split; [congruence|discriminate]].
    pose proof (consumes_len _ _ _ _ dec_pair_consumes E) as Hl1.
    destruct (has_key keq (fst x) acc); [split; discriminate|].
    destruct (IH (count - 1) (x :: acc) r1 ltac:(lia)) as [Hnf Hok].
    split; [exact Hnf|]. intros l r H. destruct (Hok l r H) as (pre2 & -> & Hle).
    destruct (dec_pair_consumes _ _ _ E) as (pre1 & -> & Hne).
    exists (pre1 ++ pre2). rewrite <- app_assoc. split; auto. rewrite app_length. cbn [length] in Hle.
    destruct pre1; [congruence|cbn; lia].
  Qed.
  Lemma dec_dict_consumes : consumes (dec_dict keq dk dv).
  Proof.
    intros bs l r H. unfold dec_dict in H. destruct (dec_size bs) as [n r1|] eqn:E; cbn [dbind] in H; [|discriminate].
    destruct (dec_entries_spec (S (length r1)) n [] r1 ltac:(lia)) as [_ Hok].
    destruct (Hok _ _ H) as (pre2 & -> & _). apply dec_varuint_consumes in E as (pre & -> & Hne).
    exists (pre ++ pre2). rewrite <- app_assoc. split; auto. destruct pre; [congruence|discriminate].
  Qed.
  Lemma dec_dict_nofuel : nofuel (dec_dict keq dk dv).
  Proof.
    intros bs. unfold dec_dict, dec_size. pose proof (dec_varuint_nofuel bs).
    destruct (dec_varuint bs) as [n r|e]; cbn [dbind]; [|congruence].
    apply (dec_entries_spec (S (length r)) n [] r). lia.
  Qed.
  Theorem dec_dict_length_bound bs l r : dec_dict keq dk dv bs = DOk l r -> (length l < length bs)%nat.
  Proof.
    intros H. unfold dec_dict in H. destruct (dec_size bs) as [n r1|] eqn:E; cbn [dbind] in H; [|discriminate].
    destruct (dec_entries_spec (S (length r1)) n [] r1 ltac:(lia)) as [_ Hok].
    destruct (Hok _ _ H) as (pre2 & -> & Hle). apply dec_varuint_consumes in E as (pre & -> & Hne).
    rewrite !app_length. cbn [length] in Hle. destruct pre; [congruence|cbn; lia].
  Qed.
End Entries.

(* ---------- the whole typed universe ---------- *)
Definition wf_pty (p : pty) : Prop := match p with PU n | PI n => (0 < n)%nat | _ => True end.
Fixpoint wf_ty (t : ty) : Prop :=
  match t with TP p => wf_pty p | TSeq t' => wf_ty t' | TDict k t' => wf_pty k /\ wf_ty t' end.

Lemma dmap_consumes {A B} (f : A -> B) d : consumes d -> consumes (fun bs => dmap f (d bs)).
Proof. intros H bs v r E. unfold dmap in E. destruct (d bs) as [a r'|] eqn:E2; [|discriminate]. inversion E; subst. eauto. Qed.
Lemma dmap_nofuel {A B} (f : A -> B) d : nofuel d -> nofuel (fun bs => dmap f (d bs)).
Proof. intros H bs. unfold dmap. pose proof (H bs). destruct (d bs); [discriminate|congruence]. Qed.
Lemma dec_p_ok p : wf_pty p -> consumes (dec_p p) /\ nofuel (dec_p p).
Proof.
  destruct p; cbn [wf_pty dec_p]; intros Hw; split.
  - apply dmap_consumes, dec_bool_consumes.
  - apply dmap_nofuel. intros [|b r]; cbn; [discriminate|]. destruct (b =? 0); [discriminate|]. destruct (b =? 1); discriminate.
  - apply dmap_consumes, dec_uint_consumes; auto.
  - apply dmap_nofuel. intros bs. unfold dec_uint. destruct (take_exact n bs) as [[? ?]|]; discriminate.
  - apply dmap_consumes, dec_int_consumes; auto.
  - apply dmap_nofuel. intros bs. unfold dec_int. destruct (take_exact n bs) as [[? ?]|]; discriminate.
  - apply dmap_consumes, dec_varuint_consumes.
  - apply dmap_nofuel, dec_varuint_nofuel.
  - apply dmap_consumes, dec_varint_consumes.
  - apply dmap_nofuel, dec_varint_nofuel.
  - apply dmap_consumes, dec_str_consumes.
  - apply dmap_nofuel, dec_str_nofuel.
Qed.
Theorem dec_val_total_prefix : forall t, wf_ty t -> consumes (dec_val t) /\ nofuel (dec_val t).
Proof.
  induction t as [p|t IH|k t IH]; cbn [wf_ty dec_val]; intros Hw.
  - destruct (dec_p_ok p Hw). split; [apply dmap_consumes|apply dmap_nofuel]; auto.
  - destruct (IH Hw) as [Hc Hf]. split; [apply dmap_consumes, dec_seq_consumes|apply dmap_nofuel, dec_seq_nofuel]; auto.
  - destruct Hw as [Hk Ht]. destruct (IH Ht) as [Hc Hf]. destruct (dec_p_ok k Hk) as [Hck Hfk].
    split; [apply dmap_consumes, dec_dict_consumes|apply dmap_nofuel, dec_dict_nofuel]; auto.
Qed.

(* what a decoder accepts is a value of the type: bools are 0/1, strings are valid UTF-8, dictionary keys are unique *)
Definition accepted_p (v : pval) : Prop :=
  match v with KStr s => utf8_valid s = true | _ => True end.
Fixpoint accepted (t : ty) : val -> Prop :=
  match t with
  | TP _ => fun v => match v with VP x => accepted_p x | _ => False end
  | TSeq t' => fun v => match v with VSeq l => Forall (accepted t') l | _ => False end
  | TDict _ t' => fun v => match v with VDict l => NoDup (map fst l) /\ Forall (fun kv => accepted_p (fst kv) /\ accepted t' (snd kv)) l | _ => False end
  end.
Lemma dec_p_accepted p bs v r : dec_p p bs = DOk v r -> accepted_p v.
Proof.
  destruct p; cbn [dec_p]; unfold dmap; intros H.
  - destruct (dec_bool bs); inversion H; subst; exact I.
  - destruct (dec_uint n bs); inversion H; subst; exact I.
  - destruct (dec_int n bs); inversion H; subst; exact I.
  - destruct (dec_varuint bs); inversion H; subst; exact I.
  - destruct (dec_varint bs); inversion H; subst; exact I.
  - destruct (dec_str bs) eqn:E; inversion H; subst. cbn. eapply str_strict; eauto.
Qed.
Lemma dec_items_all {A} (d : list byte -> dres A) (P : A -> Prop) :
  (forall bs v r, d bs = DOk v r -> P v) -> forall fuel n bs l r, dec_items d fuel n bs = DOk l r -> Forall P l.
Proof.
  intros HP. induction fuel as [|f IH]; intros n bs l r; cbn [dec_items]; destruct (n =? 0).
  1,3: intros H; inversion H; constructor.
  - discriminate.
  - destruct (d bs) as [x r1|] eqn:E; cbn [dbind]; [|discriminate].
    destruct (dec_items d f (n - 1) r1) as [xs r2|] eqn:E2; cbn [dbind]; [|discriminate].
    intros H; inversion H; subst. constructor; eauto.
Qed.
Lemma dec_entries_all {K V} keq (dk : list byte -> dres K) (dv : list byte -> dres V) (P : K * V -> Prop) :
  (forall bs v r, dec_pair dk dv bs = DOk v r -> P v) ->
  forall fuel n acc bs l r, Forall P acc -> dec_entries keq dk dv fuel n acc bs = DOk l r -> Forall P l.
Proof.
  intros HP. induction fuel as [|f IH]; intros n acc bs l r Hacc; cbn [dec_entries]; destruct (n =? 0).
  1,3: intros H; inversion H; subst; apply Forall_rev; exact Hacc.
  - discriminate.
  - destruct (dec_pair dk dv bs) as [x r1|] eqn:E; cbn [dbind]; [|discriminate].
    destruct (has_key keq (fst x) acc); [discriminate|]. apply IH. constructor; eauto.
Qed.
Theorem dec_val_strict : forall t bs v r, dec_val t bs = DOk v r -> accepted t v.
Proof.
  induction t as [p|t IH|k t IH]; intros bs v r; cbn [dec_val]; unfold dmap.
  - destruct (dec_p p bs) eqn:E; intros H; inversion H; subst. cbn. eapply dec_p_accepted; eauto.
  - destruct (dec_seq (dec_val t) bs) as [l r'|] eqn:E; intros H; inversion H; subst. cbn.
    unfold dec_seq in E. destruct (dec_size bs) as [n r1|]; cbn [dbind] in E; [|discriminate].
    eapply dec_items_all; eauto.
  - destruct (dec_dict pval_eqb (dec_p k) (dec_val t) bs) as [l r'|] eqn:E; intros H; inversion H; subst. cbn. split.
    + eapply dict_keys_unique; eauto using pval_eqb_refl.
    + unfold dec_dict in E. destruct (dec_size bs) as [n r1|]; cbn [dbind] in E; [|discriminate].
      eapply dec_entries_all; [|constructor|exact E].
      intros bs' [kk vv] r2 Hp. unfold dec_pair in Hp. destruct (dec_p k bs') as [k' r3|] eqn:E1; cbn [dbind] in Hp; [|discriminate].
      destruct (dec_val t r3) as [v' r4|] eqn:E2; cbn [dbind] in Hp; [|discriminate]. inversion Hp; subst. cbn. split.
      * eapply dec_p_accepted; eauto. * eapply IH; eauto.
Qed.

(* tagged-field skipping terminates within the input and never reads past it *)
Lemma skip_tagged_spec : forall fuel bs, (length bs < fuel)%nat ->
  skip_tagged fuel bs <> DErr EFuel /\ forall u r, skip_tagged fuel bs = DOk u r -> exists pre, bs = pre ++ r /\ pre <> [].
Proof.
  induction fuel as [|f IH]; intros bs Hl; [lia|]. cbn [skip_tagged].
  unfold dec_varint_in. pose proof (dec_varint_nofuel bs) as Hnf.
  destruct (dec_varint bs) as [t r|e] eqn:E; cbn [dbind]; [|split; [congruence|discriminate]].
  destruct (dec_varint_consumes _ _ _ E) as (p1 & -> & Hne1).
  destruct ((I32_MIN <=? t)%Z && (t <=? I32_MAX)%Z); cbn [dbind]; [|split; discriminate].
  destruct (t =? TAG_END_MARKER)%Z.
  { split; [discriminate|]. intros u r' H; inversion H; subst. eauto. }
  unfold dec_size. pose proof (dec_varuint_nofuel r) as Hnf2.
  destruct (dec_varuint r) as [n r1|e] eqn:E2; cbn [dbind]; [|split; [congruence|discriminate]].
  destruct (dec_varuint_consumes _ _ _ E2) as (p2 & -> & Hne2).
  destruct (take_n n r1) as [[s r2]|] eqn:E3; [|split; discriminate].
  apply take_n_split in E3 as [-> _].
  destruct (IH r2) as [H1 H2].
  { rewrite !app_length in Hl. destruct p1; [congruence|cbn in Hl; lia]. }
  split; [exact H1|]. intros u r' H. destruct (H2 _ _ H) as (p3 & -> & _).
  exists (p1 ++ p2 ++ s ++ p3). rewrite <- !app_assoc. split; auto. destruct p1; [congruence|discriminate].
Qed.
Theorem skip_tagged_fields_total bs : skip_tagged_fields bs <> DErr EFuel /\
  forall u r, skip_tagged_fields bs = DOk u r -> exists pre, bs = pre ++ r /\ pre <> [].
Proof. apply skip_tagged_spec. lia. Qed.
