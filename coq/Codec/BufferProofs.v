From Coq Require Import List Arith Lia NArith.
From SliceV Require Import Base.Bytes Codec.Buffer.
Import ListNotations.
Open Scope nat_scope.

Lemma render_app a b : render (a ++ b) = render a ++ render b.
Proof. unfold render. apply flat_map_app. Qed.
Lemma ranges_app a b off : ranges off (a ++ b) = ranges off a ++ ranges (off + length (render a)) b.
Proof.
  unfold render. revert off; induction a as [|[d|f rm] a IH]; intros off; cbn [app ranges flat_map rend].
  - rewrite Nat.add_0_r; reflexivity.
  - rewrite IH, app_length. f_equal. rewrite Nat.add_assoc. reflexivity.
  - rewrite IH, !app_length. f_equal. f_equal. rewrite !Nat.add_assoc. reflexivity.
Qed.
Lemma put_prefix (l t : list byte) bs : put (l ++ t) (length l) bs = l ++ bs ++ skipn (length bs) t.
Proof.
  unfold put. rewrite firstn_app, Nat.sub_diag, firstn_all. cbn. rewrite app_nil_r.
  rewrite skipn_app. replace (length l + length bs - length l) with (length bs) by lia.
  rewrite skipn_all2 by lia. reflexivity.
Qed.
Lemma put_left (l t : list byte) s bs : s + length bs <= length l -> put (l ++ t) s bs = put l s bs ++ t.
Proof.
  intros H. unfold put. rewrite firstn_app. replace (s - length l) with 0 by lia. cbn [firstn]. rewrite app_nil_r.
  rewrite skipn_app. replace (s + length bs - length l) with 0 by lia. cbn [skipn].
  rewrite <- !app_assoc. reflexivity.
Qed.
Lemma put_length l s bs : s + length bs <= length l -> length (put l s bs) = length l.
Proof. intros H. unfold put. rewrite !app_length, firstn_length, skipn_length. lia. Qed.
Lemma put_shift (p l : list byte) s bs : put (p ++ l) (length p + s) bs = p ++ put l s bs.
Proof.
  unfold put. rewrite firstn_app. replace (length p + s - length p) with s by lia.
  rewrite firstn_all2 by lia. rewrite skipn_app. rewrite skipn_all2 by lia.
  replace (length p + s + length bs - length p) with (s + length bs) by lia.
  cbn. rewrite <- app_assoc. reflexivity.
Qed.
(* a write of bs at s touches exactly [s, s + |bs|) *)
Lemma put_confined l s bs : s + length bs <= length l ->
  firstn s (put l s bs) = firstn s l /\ skipn (s + length bs) (put l s bs) = skipn (s + length bs) l /\
  firstn (length bs) (skipn s (put l s bs)) = bs.
Proof.
  intros H. unfold put.
  assert (Hl : length (firstn s l) = s) by (rewrite firstn_length; lia).
  repeat split.
  - rewrite firstn_app, Hl, Nat.sub_diag. cbn [firstn]. rewrite app_nil_r. rewrite firstn_firstn. f_equal. lia.
  - rewrite app_assoc. rewrite skipn_app. rewrite skipn_all2 by (rewrite app_length; lia).
    rewrite app_length, Hl. replace (s + length bs - (s + length bs)) with 0 by lia. reflexivity.
  - rewrite skipn_app, Hl, Nat.sub_diag. rewrite skipn_all2 by lia. cbn [skipn app].
    rewrite firstn_app, Nat.sub_diag, firstn_all. cbn. apply app_nil_r.
Qed.

(* the r-th hole: what the implementation sees (a range) vs what the log does (fill) *)
Lemma fill_spec : forall l off r bs,
  match nth_error (ranges off l) r with
  | None => holes l <= r
  | Some (s, e) =>
      r < holes l /\ off <= s /\ s <= e /\ e <= off + length (render l) /\
      (if Nat.leb (length bs) (e - s)
       then exists l', fill l r bs = Some l' /\ render l' = put (render l) (s - off) bs /\
                       ranges off l' = set_nth (ranges off l) r (s + length bs, e)
       else fill l r bs = None)
  end.
Proof.
  unfold render. induction l as [|[d|f rm] l IH]; intros off r bs.
  - destruct r; cbn; lia.
  - cbn [ranges holes fill flat_map rend]. specialize (IH (off + length d) r bs).
    destruct (nth_error (ranges (off + length d) l) r) as [[s e]|]; [|exact IH].
    destruct IH as (Hr & Hs & Hse & He & Hf). rewrite app_length. repeat split; try lia.
    destruct (Nat.leb (length bs) (e - s)); cbv beta iota in *.
    + destruct Hf as (l' & Hfl & Hrd & Hrg). exists (Seg d :: l'). rewrite Hfl. cbn [option_map flat_map rend ranges].
      split; [reflexivity|]. split; [|exact Hrg].
      rewrite Hrd.
      replace (s - off) with (length d + (s - (off + length d))) by lia. rewrite put_shift. reflexivity.
    + rewrite Hf. reflexivity.
  - cbn [ranges holes fill flat_map rend]. destruct r as [|j].
    + cbn [nth_error]. rewrite !app_length. repeat split; try lia.
      replace (off + length f + length rm - (off + length f)) with (length rm) by lia.
      destruct (Nat.leb (length bs) (length rm)) eqn:E; cbv beta iota; [|reflexivity].
      apply Nat.leb_le in E. eexists; split; [reflexivity|].
      cbn [flat_map rend ranges set_nth]. rewrite !app_length, skipn_length.
      split.
      * replace (off + length f - off) with (length f) by lia.
        rewrite <- ?app_assoc. rewrite put_prefix. rewrite <- ?app_assoc.
        f_equal. f_equal. rewrite skipn_app. replace (length bs - length rm) with 0 by lia. reflexivity.
      * f_equal; [f_equal; lia|]. f_equal. lia.
    + cbn [nth_error]. specialize (IH (off + length f + length rm) j bs).
      destruct (nth_error (ranges (off + length f + length rm) l) j) as [[s e]|]; [|lia].
      destruct IH as (Hr & Hs & Hse & He & Hf). rewrite !app_length. repeat split; try lia.
      destruct (Nat.leb (length bs) (e - s)); cbv beta iota in *.
      * destruct Hf as (l' & Hfl & Hrd & Hrg). exists (Hole f rm :: l'). rewrite Hfl.
        cbn [option_map flat_map rend ranges set_nth]. split; [reflexivity|]. split; [|rewrite Hrg; reflexivity].
        rewrite Hrd.
        replace (s - off) with (length (f ++ rm) + (s - (off + length f + length rm))) by (rewrite app_length; lia).
        rewrite put_shift. reflexivity.
      * rewrite Hf. reflexivity.
Qed.

Lemma write_at_refines t a bs : R t a ->
  let '(t', o1) := write_at t bs in let '(a', o2) := append a bs in o1 = o2 /\ R t' a'.
Proof.
  intros (Hb & Hp & Hr). unfold write_at, append.
  assert (E: length (buf t) - pos t = length (tail a)) by (rewrite Hb, Hp, app_length; lia).
  rewrite E. destruct (Nat.leb (length bs) (length (tail a))) eqn:L; [|split; [reflexivity|repeat split; auto]].
  split; [reflexivity|]. unfold R; cbn [buf pos res segs tail].
  rewrite render_app, ranges_app. cbn [render flat_map rend ranges]. rewrite !app_nil_r, app_length.
  split; [|split; [lia|exact Hr]].
  rewrite Hb, Hp, put_prefix, <- !app_assoc. reflexivity.
Qed.

Theorem bstep_refines t a o : R t a ->
  let '(t', o1) := bstep t o in let '(a', o2) := astep a o in o1 = o2 /\ R t' a'.
Proof.
  intros HR. pose proof HR as (Hb & Hp & Hr). destruct o as [b|bs|k|r bs]; cbn [bstep astep].
  - apply write_at_refines; exact HR.
  - apply write_at_refines; exact HR.
  - assert (E: length (buf t) - pos t = length (tail a)) by (rewrite Hb, Hp, app_length; lia).
    rewrite E. destruct (Nat.leb k (length (tail a))) eqn:L; [|split; [reflexivity|repeat split; auto]].
    apply Nat.leb_le in L.
    split; [reflexivity|]. unfold R; cbn [buf pos res segs tail].
    rewrite render_app, ranges_app. cbn [render flat_map rend ranges app]. rewrite !app_nil_r, app_length, firstn_length.
    replace (Nat.min k (length (tail a))) with k by lia.
    split; [|split; [lia|]].
    + rewrite Hb, <- app_assoc, firstn_skipn. reflexivity.
    + rewrite Hr, Hp. cbn [length]. repeat f_equal; lia.
  - pose proof (fill_spec (segs a) 0 r bs) as F. rewrite <- Hr in F.
    destruct (nth_error (res t) r) as [[s e]|].
    + destruct F as (Hlt & _ & Hse & He & Hf).
      replace (Nat.ltb r (holes (segs a))) with true by (symmetry; apply Nat.ltb_lt; lia).
      destruct (Nat.leb (length bs) (e - s)) eqn:L.
      * destruct Hf as (l' & Hfl & Hrd & Hrg). rewrite Hfl. split; [reflexivity|].
        apply Nat.leb_le in L. unfold R; cbn [buf pos res segs tail]. rewrite Nat.sub_0_r in Hrd.
        split; [|split].
        -- rewrite Hb, Hrd. apply put_left. cbn in He. lia.
        -- rewrite Hrd, put_length; [exact Hp|cbn in He; lia].
        -- rewrite Hrg, Hr. reflexivity.
      * rewrite Hf. split; [reflexivity|repeat split; auto].
    + replace (Nat.ltb r (holes (segs a))) with false by (symmetry; apply Nat.ltb_ge; lia).
      split; [reflexivity|repeat split; auto].
Qed.

Lemma init_R b : R (init b) (ainit b).
Proof. unfold R, init, ainit; cbn. auto. Qed.

(* every history: same results, and the final states are related *)
Theorem run_refines ops : forall t a, R t a ->
  snd (run t ops) = snd (arun a ops) /\ R (fst (run t ops)) (fst (arun a ops)).
Proof.
  induction ops as [|o ops IH]; intros t a HR; cbn [run arun]; [auto|].
  pose proof (bstep_refines t a o HR) as H.
  destruct (bstep t o) as [t' o1], (astep a o) as [a' o2]. destruct H as [-> HR'].
  specialize (IH t' a' HR'). destruct (run t' ops), (arun a' ops). cbn [fst snd] in *.
  destruct IH as [-> ?]. auto.
Qed.

(* failed operations change nothing *)
Theorem failed_is_noop t o : snd (bstep t o) <> Done -> fst (bstep t o) = t.
Proof.
  destruct o as [b|bs|k|r bs]; cbn [bstep]; unfold write_at.
  - destruct (Nat.leb _ _); cbn; congruence.
  - destruct (Nat.leb _ _); cbn; congruence.
  - destruct (Nat.leb _ _); cbn; congruence.
  - destruct (nth_error _ _) as [[s e]|]; [|reflexivity]. destruct (Nat.leb _ _); cbn; congruence.
Qed.

(* the fixed-slice target never changes its size, the cursor never passes the end *)
Lemma bstep_len t a o : R t a -> length (buf (fst (bstep t o))) = length (buf t).
Proof.
  intros (Hb & Hp & Hr). assert (Hle : pos t <= length (buf t)) by (rewrite Hb, Hp, app_length; lia).
  destruct o as [b|bs|k|r bs]; cbn [bstep]; unfold write_at.
  - destruct (Nat.leb_spec (length [b]) (length (buf t) - pos t)); cbn [fst buf]; auto. apply put_length. cbn [length] in *. lia.
  - destruct (Nat.leb_spec (length bs) (length (buf t) - pos t)); cbn [fst buf]; auto. apply put_length. lia.
  - destruct (Nat.leb k (length (buf t) - pos t)); reflexivity.
  - pose proof (fill_spec (segs a) 0 r bs) as F. rewrite <- Hr in F.
    destruct (nth_error (res t) r) as [[s e]|]; [|reflexivity].
    destruct F as (_ & _ & Hse & He & _).
    destruct (Nat.leb_spec (length bs) (e - s)); cbn [fst buf]; auto.
    apply put_length. rewrite Hb, app_length. cbn in He. lia.
Qed.
Lemma R_pos_le t a : R t a -> pos t <= length (buf t).
Proof. intros (Hb & Hp & _). rewrite Hb, Hp, app_length. lia. Qed.
Theorem never_past_end_gen ops : forall t a, R t a ->
  length (buf (fst (run t ops))) = length (buf t) /\ pos (fst (run t ops)) <= length (buf t).
Proof.
  induction ops as [|o ops IH]; intros t a HR; cbn [run].
  - split; [reflexivity|eapply R_pos_le; eauto].
  - pose proof (bstep_refines t a o HR) as H. pose proof (bstep_len t a o HR) as Hl.
    destruct (bstep t o) as [t' o1], (astep a o) as [a' o2]. destruct H as [_ HR']. cbn [fst] in Hl.
    specialize (IH t' a' HR'). destruct (run t' ops). cbn [fst] in *. lia.
Qed.
Theorem never_past_end ops b : let t := fst (run (init b) ops) in length (buf t) = length b /\ pos t <= length b.
Proof. cbv zeta. apply (never_past_end_gen ops (init b) (ainit b) (init_R b)). Qed.

(* a write into a reservation changes only bytes inside it and shrinks it from the front *)
Theorem reservation_confined t a r bs s e : R t a -> nth_error (res t) r = Some (s, e) ->
  snd (bstep t (WRes r bs)) = Done ->
  let t' := fst (bstep t (WRes r bs)) in
  s + length bs <= e /\ e <= pos t /\
  firstn s (buf t') = firstn s (buf t) /\ skipn (s + length bs) (buf t') = skipn (s + length bs) (buf t) /\
  firstn (length bs) (skipn s (buf t')) = bs /\ pos t' = pos t /\
  nth_error (res t') r = Some (s + length bs, e).
Proof.
  intros (Hb & Hp & Hr) Hn. cbn [bstep]. rewrite Hn.
  pose proof (fill_spec (segs a) 0 r bs) as F. rewrite <- Hr, Hn in F. destruct F as (_ & _ & Hse & He & _).
  destruct (Nat.leb_spec (length bs) (e - s)); cbn [fst snd]; [|congruence]. intros _.
  cbn [buf pos res]. rewrite <- Hp in He. cbn in He.
  assert (Hfit : s + length bs <= length (buf t)) by (rewrite Hb, app_length; lia).
  destruct (put_confined (buf t) s bs Hfit) as (H1 & H2 & H3).
  repeat split; auto; try lia.
  clear -Hn. revert r Hn. induction (res t) as [|x l IH]; intros [|r] Hn; cbn in *; try discriminate; auto.
Qed.

(* reservations are pairwise disjoint, in order, and lie below the cursor *)
Lemma ranges_sorted l off : 
  forall i j s1 e1 s2 e2, i < j -> nth_error (ranges off l) i = Some (s1, e1) -> nth_error (ranges off l) j = Some (s2, e2) ->
  off <= s1 /\ s1 <= e1 /\ e1 <= s2 /\ s2 <= e2 /\ e2 <= off + length (render l).
Proof.
  unfold render. revert off. induction l as [|[d|f rm] l IH]; intros off i j s1 e1 s2 e2 Hij H1 H2; cbn [ranges flat_map rend] in *.
  - destruct i; discriminate.
  - specialize (IH _ _ _ _ _ _ _ Hij H1 H2). rewrite app_length. lia.
  - rewrite !app_length. destruct i as [|i]; destruct j as [|j]; try lia; cbn [nth_error] in *.
    + inversion H1; subst.
      pose proof (fill_spec l (off + length f + length rm) j []) as F. rewrite H2 in F. unfold render in F.
      destruct F as (_ & ? & ? & ? & _). clear IH H1 H2. repeat split; lia.
    + assert (Hij' : i < j) by lia. specialize (IH _ _ _ _ _ _ _ Hij' H1 H2). lia.
Qed.
Theorem reservations_disjoint_and_below_pos t a : R t a ->
  forall i j s1 e1 s2 e2, i < j -> nth_error (res t) i = Some (s1, e1) -> nth_error (res t) j = Some (s2, e2) ->
  s1 <= e1 /\ e1 <= s2 /\ s2 <= e2 /\ e2 <= pos t.
Proof.
  intros (_ & Hp & Hr) i j s1 e1 s2 e2 Hij H1 H2. rewrite Hr in H1, H2. rewrite Hp.
  pose proof (ranges_sorted _ _ _ _ _ _ _ _ Hij H1 H2). cbn in H. lia.
Qed.

(* ---------- growable target ---------- *)
Theorem vstep_refines t a o : Rv t a ->
  let '(t', o1) := vstep t o in let '(a', o2) := vastep a o in o1 = o2 /\ Rv t' a'.
Proof.
  intros (Hb & Hr). destruct o as [b|bs|k|r bs]; cbn [vstep vastep]; unfold Rv; cbn [vbytes vres].
  - split; [reflexivity|]. rewrite render_app, ranges_app. cbn [render flat_map rend ranges]. rewrite !app_nil_r. rewrite Hb, Hr. auto.
  - split; [reflexivity|]. rewrite render_app, ranges_app. cbn [render flat_map rend ranges]. rewrite !app_nil_r. rewrite Hb, Hr. auto.
  - split; [reflexivity|]. rewrite render_app, ranges_app. cbn [render flat_map rend ranges app]. rewrite !app_nil_r, repeat_length.
    rewrite Hb, Hr. cbn [length]. split; [reflexivity|]. repeat f_equal; lia.
  - pose proof (fill_spec a 0 r bs) as F. rewrite <- Hr in F.
    destruct (nth_error (vres t) r) as [[s e]|].
    + destruct F as (Hlt & _ & Hse & He & Hf).
      replace (Nat.ltb r (holes a)) with true by (symmetry; apply Nat.ltb_lt; lia).
      destruct (Nat.leb (length bs) (e - s)) eqn:L.
      * destruct Hf as (l' & Hfl & Hrd & Hrg). rewrite Hfl. split; [reflexivity|].
        cbn [vbytes vres]. rewrite Nat.sub_0_r in Hrd. rewrite Hb, Hrd, Hrg, Hr. auto.
      * rewrite Hf. split; [reflexivity|split; auto].
    + replace (Nat.ltb r (holes a)) with false by (symmetry; apply Nat.ltb_ge; lia).
      split; [reflexivity|split; auto].
Qed.
Theorem vrun_refines ops : forall t a, Rv t a ->
  snd (vrun t ops) = snd (varun a ops) /\ Rv (fst (vrun t ops)) (fst (varun a ops)).
Proof.
  induction ops as [|o ops IH]; intros t a HR; cbn [vrun varun]; [auto|].
  pose proof (vstep_refines t a o HR) as H.
  destruct (vstep t o) as [t' o1], (vastep a o) as [a' o2]. destruct H as [-> HR'].
  specialize (IH t' a' HR'). destruct (vrun t' ops), (varun a' ops). cbn [fst snd] in *.
  destruct IH as [-> ?]. auto.
Qed.
Theorem vfailed_is_noop t o : snd (vstep t o) <> Done -> fst (vstep t o) = t.
Proof.
  destruct o as [b|bs|k|r bs]; cbn [vstep]; cbn; try congruence.
  destruct (nth_error _ _) as [[s e]|]; [|reflexivity]. destruct (Nat.leb _ _); cbn; congruence.
Qed.
(* a reservation in the growable target is zero-filled and appended *)
Theorem vec_reserve_zeroed t k : vbytes (fst (vstep t (Reserve k))) = vbytes t ++ repeat 0%N k
  /\ nth_error (vres (fst (vstep t (Reserve k)))) (length (vres t)) = Some (length (vbytes t), length (vbytes t) + k).
Proof. cbn. split; [reflexivity|]. rewrite nth_error_app2, Nat.sub_diag by lia. reflexivity. Qed.

(* ---------- input source ---------- *)
Theorem reads_within s o bs : ipos s <= length (ibuf s) -> snd (rstep s o) = Bytes bs ->
  exists k, bs = firstn k (skipn (ipos s) (ibuf s)) /\ ipos s + k <= length (ibuf s) /\ length bs = k
            /\ ipos (fst (rstep s o)) <= length (ibuf s) /\ ibuf (fst (rstep s o)) = ibuf s.
Proof.
  intros Hwf. unfold rstep. set (k := match o with Peek1 | Read1 => 1 | PeekK k | ReadK k => k end).
  destruct (Nat.leb_spec k (length (ibuf s) - ipos s)); cbn [fst snd]; [|discriminate].
  intros E; inversion E; subst bs. exists k. rewrite firstn_length, skipn_length.
  split; [reflexivity|]. split; [lia|]. split; [lia|].
  destruct o; cbn [ipos ibuf]; subst k; split; auto; lia.
Qed.
Theorem peek_does_not_consume s : fst (rstep s Peek1) = s /\ forall k, fst (rstep s (PeekK k)) = s.
Proof. unfold rstep. split; [|intros k]; destruct (Nat.leb _ _); reflexivity. Qed.
Theorem read_failure_is_noop s o : snd (rstep s o) = REob -> fst (rstep s o) = s.
Proof. unfold rstep. destruct (Nat.leb _ _); cbn; [discriminate|reflexivity]. Qed.
