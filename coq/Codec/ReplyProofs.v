From Coq Require Import List NArith ZArith Lia Bool.
From SliceV Require Import Base.Bytes Base.Utf8 Gen.VarintArms Codec.Wire Codec.WireProofs Codec.CollProofs Codec.DecodeProofs Codec.Reply.
Import ListNotations.
Open Scope N_scope.

Lemma skip_consumes : consumes skip_tagged_fields.
Proof. intros bs u r H. exact (proj2 (skip_tagged_fields_total bs) u r H). Qed.
Lemma skip_nofuel : nofuel skip_tagged_fields.
Proof. intros bs. exact (proj1 (skip_tagged_fields_total bs)). Qed.

Lemma genfile_consumes : consumes dec_generated_file.
Proof.
  intros bs v r H. unfold dec_generated_file in H.
  destruct (dec_str bs) as [p r0|] eqn:E0; cbn [dbind] in H; [|discriminate].
  destruct (dec_str r0) as [c r1|] eqn:E1; cbn [dbind] in H; [|discriminate].
  destruct (skip_tagged_fields r1) as [u r2|] eqn:E2; cbn [dbind] in H; [|discriminate]. inversion H; subst.
  destruct (dec_str_consumes _ _ _ E0) as (p0 & -> & Hne). destruct (dec_str_consumes _ _ _ E1) as (p1 & -> & _).
  destruct (skip_consumes _ _ _ E2) as (p2 & -> & _).
  exists (p0 ++ p1 ++ p2). rewrite <- !app_assoc. split; auto. destruct p0; [congruence|discriminate].
Qed.
Lemma genfile_nofuel : nofuel dec_generated_file.
Proof.
  intros bs. unfold dec_generated_file.
  pose proof (dec_str_nofuel bs). destruct (dec_str bs) as [p r0|e]; cbn [dbind]; [|congruence].
  pose proof (dec_str_nofuel r0). destruct (dec_str r0) as [c r1|e]; cbn [dbind]; [|congruence].
  pose proof (skip_nofuel r1). destruct (skip_tagged_fields r1) as [u r2|e]; cbn [dbind]; [discriminate|congruence].
Qed.
Lemma level_consumes : consumes dec_level.
Proof.
  intros bs v r H. unfold dec_level in H. destruct (dec_uint 1 bs) as [x r0|] eqn:E; cbn [dbind] in H; [|discriminate].
  destruct (x <=? 2); [|discriminate]. inversion H; subst. eapply dec_uint_consumes; eauto.
Qed.
Lemma diag_consumes : consumes dec_diagnostic.
Proof.
  intros bs v r H. unfold dec_diagnostic in H.
  destruct (dec_bool bs) as [hs r0|] eqn:E0; cbn [dbind] in H; [|discriminate].
  destruct (dec_level r0) as [l r1|] eqn:E1; cbn [dbind] in H; [|discriminate].
  destruct (dec_str r1) as [m r2|] eqn:E2; cbn [dbind] in H; [|discriminate].
  destruct (dec_bool_consumes _ _ _ E0) as (p0 & -> & Hne). destruct (level_consumes _ _ _ E1) as (p1 & -> & _).
  destruct (dec_str_consumes _ _ _ E2) as (p2 & -> & _).
  destruct hs.
  - destruct (dec_str r2) as [s r3|] eqn:E3; cbn [dbind] in H; [|discriminate].
    destruct (skip_tagged_fields r3) as [u r4|] eqn:E4; cbn [dbind] in H; [|discriminate]. inversion H; subst.
    destruct (dec_str_consumes _ _ _ E3) as (p3 & -> & _). destruct (skip_consumes _ _ _ E4) as (p4 & -> & _).
    exists (p0 ++ p1 ++ p2 ++ p3 ++ p4). rewrite <- !app_assoc. split; auto. destruct p0; [congruence|discriminate].
  - destruct (skip_tagged_fields r2) as [u r4|] eqn:E4; cbn [dbind] in H; [|discriminate]. inversion H; subst.
    destruct (skip_consumes _ _ _ E4) as (p4 & -> & _).
    exists (p0 ++ p1 ++ p2 ++ p4). rewrite <- !app_assoc. split; auto. destruct p0; [congruence|discriminate].
Qed.
Lemma diag_nofuel : nofuel dec_diagnostic.
Proof.
  intros bs. unfold dec_diagnostic.
  assert (Hb : dec_bool bs <> DErr EFuel).
  { destruct bs as [|b r]; cbn; [discriminate|]. destruct (b =? 0); [discriminate|]. destruct (b =? 1); discriminate. }
  destruct (dec_bool bs) as [hs r0|e]; cbn [dbind]; [|congruence].
  unfold dec_level. unfold dec_uint. destruct (take_exact 1 r0) as [[h t]|]; cbn [dbind]; [|discriminate].
  destruct (of_le h <=? 2); cbn [dbind]; [|discriminate].
  pose proof (dec_str_nofuel t). destruct (dec_str t) as [m r2|e]; cbn [dbind]; [|congruence].
  destruct hs.
  - pose proof (dec_str_nofuel r2). destruct (dec_str r2) as [s r3|e]; cbn [dbind]; [|congruence].
    pose proof (skip_nofuel r3). destruct (skip_tagged_fields r3) as [u r4|e]; cbn [dbind]; [discriminate|congruence].
  - pose proof (skip_nofuel r2). destruct (skip_tagged_fields r2) as [u r4|e]; cbn [dbind]; [discriminate|congruence].
Qed.

(* the reply decoder is total, reads a prefix, and what it hands over for writing is well-formed:
   valid UTF-8 paths/contents, levels in 0..2 *)
Theorem reply_total_prefix : nofuel dec_reply /\
  forall bs v r, dec_reply bs = DOk v r -> exists pre, bs = pre ++ r /\ pre <> [].
Proof.
  split.
  - intros bs. unfold dec_reply.
    pose proof (dec_seq_nofuel _ genfile_consumes genfile_nofuel bs).
    destruct (dec_seq dec_generated_file bs) as [fs r|e]; cbn [dbind]; [|congruence].
    pose proof (dec_seq_nofuel _ diag_consumes diag_nofuel r).
    destruct (dec_seq dec_diagnostic r) as [ds r1|e]; cbn [dbind]; [discriminate|congruence].
  - intros bs v r H. unfold dec_reply in H.
    destruct (dec_seq dec_generated_file bs) as [fs r0|] eqn:E0; cbn [dbind] in H; [|discriminate].
    destruct (dec_seq dec_diagnostic r0) as [ds r1|] eqn:E1; cbn [dbind] in H; [|discriminate]. inversion H; subst.
    destruct (dec_seq_consumes _ genfile_consumes genfile_nofuel _ _ _ E0) as (p0 & -> & Hne).
    destruct (dec_seq_consumes _ diag_consumes diag_nofuel _ _ _ E1) as (p1 & -> & _).
    exists (p0 ++ p1). rewrite <- app_assoc. split; auto. destruct p0; [congruence|discriminate].
Qed.
Theorem reply_files_wellformed bs fs ds r : dec_reply bs = DOk (fs, ds) r ->
  Forall (fun f => utf8_valid (gf_path f) = true /\ utf8_valid (gf_contents f) = true) fs /\
  Forall (fun d => gd_level d <= 2 /\ utf8_valid (gd_message d) = true) ds.
Proof.
  unfold dec_reply. destruct (dec_seq dec_generated_file bs) as [fs' r0|] eqn:E0; cbn [dbind]; [|discriminate].
  destruct (dec_seq dec_diagnostic r0) as [ds' r1|] eqn:E1; cbn [dbind]; [|discriminate]. intros H; inversion H; subst.
  split.
  - unfold dec_seq in E0. destruct (dec_size bs) as [n rr|]; cbn [dbind] in E0; [|discriminate].
    eapply dec_items_all; [|exact E0]. intros b v r' Hd. unfold dec_generated_file in Hd.
    destruct (dec_str b) as [p q|] eqn:Ea; cbn [dbind] in Hd; [|discriminate].
    destruct (dec_str q) as [c q1|] eqn:Eb; cbn [dbind] in Hd; [|discriminate].
    destruct (skip_tagged_fields q1); cbn [dbind] in Hd; [|discriminate]. inversion Hd; subst. cbn.
    split; eapply str_strict; eauto.
  - unfold dec_seq in E1. destruct (dec_size r0) as [n rr|]; cbn [dbind] in E1; [|discriminate].
    eapply dec_items_all; [|exact E1]. intros b v r' Hd. unfold dec_diagnostic in Hd.
    destruct (dec_bool b) as [hs q|]; cbn [dbind] in Hd; [|discriminate].
    unfold dec_level in Hd. destruct (dec_uint 1 q) as [lv q0|]; cbn [dbind] in Hd; [|discriminate].
    destruct (N.leb_spec lv 2); cbn [dbind] in Hd; [|discriminate].
    destruct (dec_str q0) as [m q1|] eqn:Eb; cbn [dbind] in Hd; [|discriminate].
    assert (Hm : utf8_valid m = true) by (eapply str_strict; eauto).
    destruct hs.
    + destruct (dec_str q1); cbn [dbind] in Hd; [|discriminate]. destruct (skip_tagged_fields rest); cbn [dbind] in Hd; [|discriminate].
      inversion Hd; subst. cbn. auto.
    + destruct (skip_tagged_fields q1); cbn [dbind] in Hd; [|discriminate]. inversion Hd; subst. cbn. auto.
Qed.
