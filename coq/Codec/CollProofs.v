(* Round-trip proofs for strings, sequences and dictionaries (C10), generic in the element codec. *)
From Coq Require Import List NArith ZArith Lia ZifyBool ZifyN ZifyNat Bool.
From SliceV Require Import Base.Bytes Base.Utf8 Gen.VarintArms Codec.Wire Codec.WireProofs.
Import ListNotations.
Open Scope N_scope.

Lemma take_n_app (s r : list byte) : take_n (N.of_nat (length s)) (s ++ r) = Some (s, r).
Proof.
  unfold take_n. rewrite app_length, Nnat.Nat2N.id.
  destruct (N.leb_spec (N.of_nat (length s)) (N.of_nat (length s + length r))); [|lia].
  rewrite firstn_app, skipn_app, Nat.sub_diag, firstn_all, skipn_all. cbn. rewrite app_nil_r. reflexivity.
Qed.
Lemma take_n_split n bs s r : take_n n bs = Some (s, r) -> bs = s ++ r /\ N.of_nat (length s) = n.
Proof.
  unfold take_n. destruct (N.leb_spec n (N.of_nat (length bs))); [|discriminate].
  intros E; inversion E; subst. split; [symmetry; apply firstn_skipn|]. rewrite firstn_length. lia.
Qed.

Theorem str_roundtrip s rest : utf8_valid s = true -> N.of_nat (length s) < 2 ^ 62 ->
  exists bs, enc_str s = Some bs /\ dec_str (bs ++ rest) = DOk s rest.
Proof.
  intros Hv Hl. unfold enc_str, enc_size.
  destruct (varuint_roundtrip (N.of_nat (length s)) (s ++ rest) Hl) as (h & Hh & Hd).
  rewrite Hh. eexists; split; [reflexivity|].
  unfold dec_str, dec_size. rewrite <- app_assoc, Hd. cbn [dbind].
  rewrite take_n_app, Hv. reflexivity.
Qed.
Theorem str_strict bs s rest : dec_str bs = DOk s rest -> utf8_valid s = true.
Proof.
  unfold dec_str. destruct (dec_size bs) as [n r|]; cbn [dbind]; [|discriminate].
  destruct (take_n n r) as [[s' r']|]; [|discriminate].
  destruct (utf8_valid s') eqn:E; [|discriminate]. intros H; inversion H; subst; exact E.
Qed.

Section SeqProofs.
  Context {A : Type} (enc_e : A -> option (list byte)) (dec_e : list byte -> dres A) (P : A -> Prop).
  Hypothesis Hrt : forall x rest, P x -> exists b, enc_e x = Some b /\ dec_e (b ++ rest) = DOk x rest.
  Hypothesis Hne : forall x b, enc_e x = Some b -> b <> [].

  Lemma items_roundtrip l rest fuel : Forall P l -> (length l <= fuel)%nat ->
    exists bs, enc_items enc_e l = Some bs /\ (length l <= length bs)%nat /\
               dec_items dec_e fuel (N.of_nat (length l)) (bs ++ rest) = DOk l rest.
  Proof.
    intros HP. revert fuel. induction HP as [|x l Hx Hl IH]; intros fuel Hf.
    - exists []. cbn. destruct fuel; auto.
    - destruct fuel as [|f]; [cbn in Hf; lia|].
      destruct (IH f ltac:(cbn in Hf; lia)) as (bs & Hbs & Hlen & Hd).
      destruct (Hrt x (bs ++ rest) Hx) as (b & Hb & Hdb).
      exists (b ++ bs). cbn [enc_items]. rewrite Hb, Hbs. split; [reflexivity|].
      split.
      { rewrite app_length. cbn [length]. pose proof (Hne x b Hb). destruct b; [congruence|cbn; lia]. }
      cbn [dec_items length].
      destruct (N.eqb_spec (N.of_nat (S (length l))) 0); [lia|].
      rewrite <- app_assoc, Hdb. cbn [dbind].
      replace (N.of_nat (S (length l)) - 1) with (N.of_nat (length l)) by lia.
      rewrite Hd. reflexivity.
  Qed.

  Theorem seq_roundtrip l rest : Forall P l -> N.of_nat (length l) < 2 ^ 62 ->
    exists bs, enc_seq enc_e l = Some bs /\ dec_seq dec_e (bs ++ rest) = DOk l rest.
  Proof.
    intros HP Hl. unfold enc_seq, enc_size.
    destruct (items_roundtrip l rest (S (length l)) HP ltac:(lia)) as (bs & Hbs & Hlen & _).
    destruct (varuint_roundtrip (N.of_nat (length l)) (bs ++ rest) Hl) as (h & Hh & Hd).
    rewrite Hh, Hbs. eexists; split; [reflexivity|].
    unfold dec_seq, dec_size. rewrite <- app_assoc, Hd. cbn [dbind].
    destruct (items_roundtrip l rest (S (length (bs ++ rest))) HP) as (bs' & Hbs' & _ & Hd').
    { rewrite app_length. lia. }
    rewrite Hbs in Hbs'. inversion Hbs'; subst bs'. exact Hd'.
  Qed.
End SeqProofs.

Section DictProofs.
  Context {K V : Type} (keq : K -> K -> bool).
  Context (enc_k : K -> option (list byte)) (dec_k : list byte -> dres K).
  Context (enc_v : V -> option (list byte)) (dec_v : list byte -> dres V).
  Context (PK : K -> Prop) (PV : V -> Prop).
  Hypothesis keq_refl : forall a, keq a a = true.
  Hypothesis keq_eq : forall a b, PK a -> PK b -> keq a b = true -> a = b.
  Hypothesis Hk : forall x rest, PK x -> exists b, enc_k x = Some b /\ dec_k (b ++ rest) = DOk x rest.
  Hypothesis Hv : forall x rest, PV x -> exists b, enc_v x = Some b /\ dec_v (b ++ rest) = DOk x rest.
  Hypothesis Hkne : forall x b, enc_k x = Some b -> b <> [].

  Definition Ppair (kv : K * V) : Prop := PK (fst kv) /\ PV (snd kv).

  Lemma pair_roundtrip kv rest : Ppair kv ->
    exists b, enc_pair enc_k enc_v kv = Some b /\ dec_pair dec_k dec_v (b ++ rest) = DOk kv rest.
  Proof.
    intros [Hpk Hpv]. destruct kv as [k v]. cbn [fst snd] in *.
    destruct (Hv v rest Hpv) as (bv & Hbv & Hdv).
    destruct (Hk k (bv ++ rest) Hpk) as (bk & Hbk & Hdk).
    exists (bk ++ bv). unfold enc_pair, dec_pair. cbn [fst snd]. rewrite Hbk, Hbv. split; [reflexivity|].
    rewrite <- app_assoc, Hdk. cbn [dbind]. rewrite Hdv. reflexivity.
  Qed.
  Lemma pair_nonempty kv b : enc_pair enc_k enc_v kv = Some b -> b <> [].
  Proof.
    unfold enc_pair. destruct (enc_k (fst kv)) as [bk|] eqn:E; [|discriminate].
    destruct (enc_v (snd kv)) as [bv|]; [|discriminate]. intros H; inversion H; subst.
    pose proof (Hkne _ _ E). destruct bk; [congruence|discriminate].
  Qed.

  Lemma has_key_false k (acc : list (K * V)) : PK k -> Forall Ppair acc ->
    ~ In k (map fst acc) -> has_key keq k acc = false.
  Proof.
    intros Hpk Hacc H. unfold has_key. apply not_true_is_false. intros E. apply existsb_exists in E as (kv & Hin & Heq).
    apply keq_eq in Heq; [|exact Hpk|]. { subst k. apply H. apply in_map. exact Hin. }
    rewrite Forall_forall in Hacc. apply Hacc in Hin. apply Hin.
  Qed.
  Lemma has_key_true k (acc : list (K * V)) : In k (map fst acc) -> has_key keq k acc = true.
  Proof.
    intros H. apply in_map_iff in H as (kv & <- & Hin). unfold has_key. apply existsb_exists.
    exists kv. split; auto.
  Qed.

  Lemma entries_roundtrip l acc rest fuel : Forall Ppair l -> Forall Ppair acc -> NoDup (map fst (rev acc ++ l)) -> (length l <= fuel)%nat ->
    exists bs, enc_items (enc_pair enc_k enc_v) l = Some bs /\ (length l <= length bs)%nat /\
               dec_entries keq dec_k dec_v fuel (N.of_nat (length l)) acc (bs ++ rest) = DOk (rev acc ++ l) rest.
  Proof.
    intros HP. revert acc fuel. induction HP as [|x l Hx Hl IH]; intros acc fuel Hacc Hnd Hf.
    - exists []. cbn. rewrite app_nil_r. destruct fuel; auto.
    - destruct fuel as [|f]; [cbn in Hf; lia|].
      destruct (IH (x :: acc) f) as (bs & Hbs & Hlen & Hd).
      { constructor; assumption. }
      { cbn [rev]. rewrite <- app_assoc. exact Hnd. }
      { cbn in Hf; lia. }
      destruct (pair_roundtrip x (bs ++ rest) Hx) as (b & Hb & Hdb).
      exists (b ++ bs). cbn [enc_items]. rewrite Hb, Hbs. split; [reflexivity|].
      split.
      { rewrite app_length. cbn [length]. pose proof (pair_nonempty x b Hb). destruct b; [congruence|cbn; lia]. }
      cbn [dec_entries length].
      destruct (N.eqb_spec (N.of_nat (S (length l))) 0); [lia|].
      rewrite <- app_assoc, Hdb. cbn [dbind].
      rewrite has_key_false; [|apply Hx|exact Hacc|].
      2:{ rewrite map_app in Hnd. apply NoDup_remove_2 in Hnd. intros Hin. apply Hnd.
          apply in_or_app. left. rewrite map_rev. apply -> in_rev. exact Hin. }
      replace (N.of_nat (S (length l)) - 1) with (N.of_nat (length l)) by lia.
      rewrite Hd. cbn [rev]. rewrite <- app_assoc. reflexivity.
  Qed.

  (* dictionaries as duplicate-free association lists, in wire order *)
  Theorem dict_roundtrip l rest : Forall Ppair l -> NoDup (map fst l) -> N.of_nat (length l) < 2 ^ 62 ->
    exists bs, enc_dict enc_k enc_v l = Some bs /\ dec_dict keq dec_k dec_v (bs ++ rest) = DOk l rest.
  Proof.
    intros HP Hnd Hl. unfold enc_dict, enc_seq, enc_size.
    destruct (entries_roundtrip l [] rest (S (length l)) HP (Forall_nil _) Hnd ltac:(lia)) as (bs & Hbs & Hlen & _).
    destruct (varuint_roundtrip (N.of_nat (length l)) (bs ++ rest) Hl) as (h & Hh & Hd).
    rewrite Hh, Hbs. eexists; split; [reflexivity|].
    unfold dec_dict, dec_size. rewrite <- app_assoc, Hd. cbn [dbind].
    destruct (entries_roundtrip l [] rest (S (length (bs ++ rest))) HP (Forall_nil _) Hnd) as (bs' & Hbs' & _ & Hd').
    { rewrite app_length. lia. }
    rewrite Hbs in Hbs'. inversion Hbs'; subst bs'. exact Hd'.
  Qed.

  (* a successfully decoded dictionary has unique keys (C11: duplicates are rejected) *)
  Lemma entries_nodup fuel n acc bs l rest : NoDup (map fst acc) ->
    dec_entries keq dec_k dec_v fuel n acc bs = DOk l rest -> NoDup (map fst l).
  Proof.
    revert n acc bs. induction fuel as [|f IH]; intros n acc bs Hnd; cbn [dec_entries].
    - destruct (n =? 0); [|discriminate]. intros H; inversion H; subst.
      rewrite map_rev. apply NoDup_rev. exact Hnd.
    - destruct (n =? 0).
      { intros H; inversion H; subst. rewrite map_rev. apply NoDup_rev. exact Hnd. }
      destruct (dec_pair dec_k dec_v bs) as [kv r|]; cbn [dbind]; [|discriminate].
      destruct (has_key keq (fst kv) acc) eqn:E; [discriminate|].
      apply IH. cbn [map]. constructor; [|exact Hnd].
      intros Hin. apply has_key_true in Hin. congruence.
  Qed.
  Theorem dict_keys_unique bs l rest : dec_dict keq dec_k dec_v bs = DOk l rest -> NoDup (map fst l).
  Proof.
    unfold dec_dict. destruct (dec_size bs) as [n r|]; cbn [dbind]; [|discriminate].
    apply entries_nodup. constructor.
  Qed.
End DictProofs.
