"""Helpers for front-end streams: hex text, parsing the harness' diagnostic dump."""
import re


def hx(s):
    b = s.encode("utf-8")
    return b.hex() if b else "-"


def unhx(h):
    return "" if h == "-" else bytes.fromhex(h).decode("utf-8", "replace")


def parse_diags(line):
    """-> list of dicts {code, level, span, msg, scope, notes:[(span,msg)]} or None when the line is not a dump."""
    if line == "none":
        return []
    if line.startswith(("crash", "panic", "?")):
        return None
    out = []
    for part in line.split(" ;; "):
        t = part.split(" ")
        if len(t) < 5:
            return None
        d = {"code": t[0], "level": t[1], "span": t[2], "msg": unhx(t[3]), "scope": None if t[4] == "-" else unhx(t[4]), "notes": []}
        for n in t[5:]:
            if n.startswith("note:"):
                body = n[5:]
                sp, _, mh = body.rpartition(":")
                d["notes"].append((sp, unhx(mh)))
        out.append(d)
    return out
