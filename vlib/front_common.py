"""Helpers for front-end streams: hex text, parsing the harness' diagnostic dump."""
import re


def hx(s):
    b = s.encode("utf-8")
    return b.hex() if b else "-"


def unhx(h):
    return "" if h == "-" else bytes.fromhex(h).decode("utf-8", "replace")


def _span(tok):
    """harness span token hexfile@r:c-r:c -> 'file:r:c-r:c' (or '-')"""
    if tok == "-" or "@" not in tok:
        return tok
    f, loc = tok.split("@", 1)
    return unhx(f) + ":" + loc


def parse_diags(line):
    """-> list of dicts {code, level, span, msg, scope, notes:[(span,msg)]} or None when the line is not a dump."""
    if line == "none":
        return []
    if line.startswith(("crash", "panic", "?")):
        return None
    out = []
    for part in line.split(" ;; "):
        t = part.split(" ")
        if len(t) < 5:
            return None
        d = {"code": t[0], "level": t[1], "span": _span(t[2]), "msg": unhx(t[3]), "scope": None if t[4] == "-" else unhx(t[4]), "notes": []}
        for n in t[5:]:
            if n.startswith("note:"):
                body = n[5:]
                sp, _, mh = body.rpartition(":")
                d["notes"].append((_span(sp), unhx(mh)))
        out.append(d)
    return out


def parse_sexp(s):
    """Parse a sequence of S-expressions (atoms are whitespace-free tokens) into nested lists."""
    out, stack, tok = [], [], []
    cur = out

    def flush():
        nonlocal tok
        if tok:
            cur.append("".join(tok))
            tok = []
    for ch in s:
        if ch == "(":
            flush()
            new = []
            cur.append(new)
            stack.append(cur)
            cur = new
        elif ch == ")":
            flush()
            cur = stack.pop()
        elif ch in " \n\t":
            flush()
        else:
            tok.append(ch)
    flush()
    return out


def split_dump(line):
    """harness `dump` output -> (list of file sexps, diagnostics list) or (None, None) on crash."""
    if line.startswith(("crash", "panic", "?", "skipped")) or " || " not in line:
        return None, None
    a, b = line.split(" || ", 1)
    return parse_sexp(a), parse_diags(b)


def find_all(sx, head):
    """all sub-expressions whose first atom is `head`, in pre-order."""
    out = []
    if isinstance(sx, list):
        if sx and sx[0] == head:
            out.append(sx)
        for x in sx:
            out += find_all(x, head)
    return out


def child(sx, head):
    for x in sx:
        if isinstance(x, list) and x and x[0] == head:
            return x
    return None
