"""Shared machinery of bin/vcheck: translator run, proof build, model/harness build,
batched differential execution, known-findings classification, replay and evidence files."""
import concurrent.futures, fcntl, hashlib, json, os, random, re, subprocess, sys, time

V = os.path.dirname(os.path.dirname(os.path.abspath(__file__)))
REPO = os.environ.get("VERIF_REPO", "/repo")
CACHE = os.path.join(V, ".cache")
TARGET = os.path.join(CACHE, "target")
HARNESS = os.path.join(TARGET, "release", "vharness")
SLICEC = os.path.join(TARGET, "release", "slicec")
FAKEGEN = os.path.join(TARGET, "release", "fakegen")
MODEL = os.path.join(CACHE, "model", "model_main")
COQ = os.path.join(V, "coq")
NPROC = 16

FORBIDDEN = re.compile(r"\b(Admitted|admit|Axiom|Axioms|Parameter|Parameters|Conjecture|Hypothesis|Variable|Variables|Hypotheses)\b|Unset\s+Guard|bypass_check|type-in-type|impredicative-set|Admit\s+Obligations|Unset\s+Universe\s+Checking|Unset\s+Positivity")

TRUSTED_BASE_COMMON = [
    "Coq 8.16.1 kernel (coqc; coqchk in the thorough tier); vm_compute used inside proofs, native_compute not used",
    "no axioms declared; per-theorem Print Assumptions compared with the allow-list of the property",
    "extraction with ExtrOcamlBasic only (its Extract Inductive for bool/option/unit/list/prod/sumbool/sumor; no Extract Constant of ours), OCaml 4.13.1, model/*.ml driver",
    "tools/regen.py (translator for coq/Gen/*.v), the case generators in vlib/, the Rust harness (harness/src, calls public API of /repo's crates and prints)",
    "the hand-written Gallina models are re-implementations tied to the Rust code by differential execution on generated inputs (testing, not proof)",
]


def sh(cmd, timeout=None, cwd=None, env=None, inp=None):
    e = dict(os.environ)
    e.setdefault("CARGO_NET_OFFLINE", "true")
    if env:
        e.update(env)
    p = subprocess.run(cmd, shell=isinstance(cmd, str), cwd=cwd, env=e, input=inp, stdout=subprocess.PIPE,
                       stderr=subprocess.STDOUT, timeout=timeout, text=True, errors="replace")
    return p.returncode, p.stdout


class Lock:
    def __init__(self, name):
        os.makedirs(CACHE, exist_ok=True)
        self.path = os.path.join(CACHE, name + ".lock")

    def __enter__(self):
        self.f = open(self.path, "w")
        fcntl.flock(self.f, fcntl.LOCK_EX)

    def __exit__(self, *a):
        fcntl.flock(self.f, fcntl.LOCK_UN)
        self.f.close()


# ------------------------------------------------------------------------------- translator
def regen():
    os.makedirs(CACHE, exist_ok=True)
    rep = os.path.join(CACHE, "regen-%d.json" % os.getpid())
    with Lock("coq"):
        rc, out = sh([sys.executable, os.path.join(V, "tools", "regen.py"), "--repo", REPO, "--json", rep], timeout=120)
    try:
        r = json.load(open(rep))
        os.unlink(rep)
    except Exception:
        r = {"fragments": {}, "skipped": ["<translator crashed>"], "changed": [], "sources": {}, "error": out[-2000:]}
    return r


# ------------------------------------------------------------------------------- proofs
def strip_coq_comments(s):
    out, depth, i = [], 0, 0
    while i < len(s):
        if s.startswith("(*", i):
            depth += 1
            i += 2
        elif s.startswith("*)", i) and depth > 0:
            depth -= 1
            i += 2
        else:
            if depth == 0:
                out.append(s[i])
            i += 1
    return "".join(out)


def scan_forbidden():
    """No Admitted/admit/Axiom/Parameter/... anywhere in the development (Hypothesis/Variable/Context
    are allowed only inside a Section)."""
    bad = []
    for root, _, files in os.walk(COQ):
        for f in files:
            if not f.endswith(".v"):
                continue
            p = os.path.join(root, f)
            src = strip_coq_comments(open(p).read())
            depth = 0
            for ln, line in enumerate(src.split("\n"), 1):
                if re.match(r"\s*Section\b", line):
                    depth += 1
                if re.match(r"\s*End\b", line) and depth > 0:
                    depth -= 1
                for m in FORBIDDEN.finditer(line):
                    w = m.group(0)
                    if w.split()[0] in ("Hypothesis", "Hypotheses", "Variable", "Variables") and depth > 0:
                        continue
                    bad.append("%s:%d: %s" % (os.path.relpath(p, V), ln, w))
    return bad


def theorem_names(pid):
    p = os.path.join(COQ, "Props", pid + ".v")
    src = strip_coq_comments(open(p).read())
    return re.findall(r"^\s*Theorem\s+(\w+)", src, flags=re.M)


def locate_failure(log):
    """Map a coqc error to the enclosing lemma."""
    m = re.search(r'File "\./([^"]+)", line (\d+)', log)
    if not m:
        return {"file": None, "line": None, "lemma": None, "msg": log[-600:]}
    f, ln = m.group(1), int(m.group(2))
    lemma = None
    try:
        lines = open(os.path.join(COQ, f)).read().split("\n")
        for i in range(min(ln, len(lines)) - 1, -1, -1):
            mm = re.match(r"\s*(Lemma|Theorem|Example|Corollary|Definition|Fixpoint|Fact|Remark)\s+(\w+)", lines[i])
            if mm:
                lemma = mm.group(2)
                break
    except OSError:
        pass
    i = log.find(m.group(0))
    return {"file": f, "line": ln, "lemma": lemma, "msg": log[i:i + 800]}


def prove(pid, allowed_axioms=(), tier="quick", extract=True):
    """make Props/<pid>.vo (+ extraction), Print Assumptions on every theorem, forbidden-word scan."""
    t0 = time.time()
    res = {"obligations": 0, "discharged": 0, "ok": False, "failed": [], "axioms": {}, "forbidden": [], "coqchk": None}
    thms = theorem_names(pid)
    res["theorems"] = thms
    res["obligations"] = len(thms)
    with Lock("coq"):
        sh([os.path.join(V, "bin", "vmk")], timeout=120)
        targets = ["Props/%s.vo" % pid] + (["Extract/Extract.vo"] if extract else [])
        rc, log = sh("timeout 1500 make -j%d %s" % (NPROC, " ".join(targets)), cwd=COQ, timeout=1600)
        if rc != 0:
            # the model may still extract although a proof is broken
            if extract:
                sh("timeout 900 make -j%d Extract/Extract.vo" % NPROC, cwd=COQ, timeout=1000)
            res["failed"].append(locate_failure(log))
            res["wall_s"] = round(time.time() - t0, 1)
            return res
        # Print Assumptions, compiled outside the library
        adir = os.path.join(CACHE, "assume")
        os.makedirs(adir, exist_ok=True)
        af = os.path.join(adir, "A_%s.v" % pid)
        with open(af, "w") as f:
            f.write("From SliceV Require Import Props.%s.\n" % pid)
            for t in thms:
                f.write('Goal True. idtac "@@ %s". Abort.\nPrint Assumptions %s.\n' % (t, t))
        rc, out = sh(["coqc", "-Q", COQ, "SliceV", af], cwd=adir, timeout=600)
    if rc != 0:
        res["failed"].append({"file": "assumptions", "lemma": None, "msg": out[-800:]})
        return res
    cur = None
    for line in out.split("\n"):
        if line.startswith("@@ "):
            cur = line[3:].strip()
            res["axioms"][cur] = []
        elif cur and re.match(r"^[A-Za-z_][\w.']*\s*:", line) and "Closed under" not in line:
            res["axioms"][cur].append(line.split(":")[0].strip())
        elif cur and re.match(r"^\s+\S", line):
            pass
    bad_ax = {t: [a for a in ax if a not in allowed_axioms] for t, ax in res["axioms"].items()}
    bad_ax = {t: a for t, a in bad_ax.items() if a}
    res["forbidden"] = scan_forbidden()
    for t in thms:
        if t in res["axioms"] and t not in bad_ax:
            res["discharged"] += 1
    if bad_ax:
        res["failed"].append({"file": "Props/%s.v" % pid, "lemma": ",".join(bad_ax), "msg": "axioms outside the allow-list: %r" % bad_ax})
    if res["forbidden"]:
        res["failed"].append({"file": "coq/", "lemma": None, "msg": "forbidden vernacular: " + "; ".join(res["forbidden"][:5])})
        res["discharged"] = 0
    if tier == "thorough" and not res["failed"]:
        with Lock("coq"):
            rc, out = sh("timeout 1500 coqchk -silent -o -Q . SliceV SliceV.Props.%s" % pid, cwd=COQ, timeout=1600)
        res["coqchk"] = {"rc": rc, "tail": out[-1500:]}
        if rc != 0:
            res["failed"].append({"file": "coqchk", "lemma": None, "msg": out[-800:]})
    res["ok"] = not res["failed"]
    res["wall_s"] = round(time.time() - t0, 1)
    return res


# ------------------------------------------------------------------------------- builds
def build_model():
    with Lock("coq"):
        rc, out = sh([os.path.join(V, "bin", "vbuild-model")], timeout=900)
    if rc != 0:
        raise RuntimeError("model build failed:\n" + out[-3000:])


def build_harness(need_slicec=False):
    env = {"CARGO_TARGET_DIR": TARGET, "RUSTFLAGS": os.environ.get("VERIF_RUSTFLAGS", "--cfg slicec_verif")}
    with Lock("cargo"):
        lock = os.path.join(V, "harness", "Cargo.lock")
        rc, out = sh("cargo build --release --offline 2>&1", cwd=os.path.join(V, "harness"), env=env, timeout=1800)
        if rc != 0:
            return False, out[-4000:]
        if need_slicec:
            rc, out = sh("cargo build --release --offline -p slicec --bin slicec 2>&1", cwd=REPO, env=env, timeout=1800)
            if rc != 0:
                return False, out[-4000:]
    return True, ""


# ------------------------------------------------------------------------------- execution
def _run_chunk(cmd, lines, timeout, env=None):
    """Run one process over a chunk; on crash/timeout, attribute to the first unanswered case and resume."""
    out = []
    start = 0
    failures = 0
    while start < len(lines):
        if failures >= 3:
            # repeated crashes/hangs: do not burn the time budget, the cases already attributed are reported
            out.extend(["skipped after repeated crashes"] * (len(lines) - start))
            break
        data = "\n".join(lines[start:]) + "\n"
        try:
            p = subprocess.run(cmd, input=data, stdout=subprocess.PIPE, stderr=subprocess.PIPE, timeout=timeout,
                               text=True, errors="replace", env=env)
            got = p.stdout.split("\n")
            if got and got[-1] == "":
                got.pop()
            status = "exit %d" % p.returncode if p.returncode >= 0 else "signal %d" % (-p.returncode)
            crashed = p.returncode != 0
        except subprocess.TimeoutExpired as e:
            so = e.stdout or ""
            if isinstance(so, bytes):
                so = so.decode("utf-8", "replace")
            got = so.split("\n")
            if got:
                got.pop()  # possibly partial last line
            status, crashed = "timeout", True
        need = len(lines) - start
        if len(got) >= need and not crashed:
            out.extend(got[:need])
            break
        if len(got) >= need:
            out.extend(got[:need])
            break
        out.extend(got)
        out.append("crash " + status)
        failures += 1
        start += len(got) + 1
    return out


def run_lines(cmd, lines, chunk=2000, timeout=120, env=None, workers=NPROC):
    if not lines:
        return []
    chunks = [lines[i:i + chunk] for i in range(0, len(lines), chunk)]
    with concurrent.futures.ThreadPoolExecutor(max_workers=workers) as ex:
        res = list(ex.map(lambda c: _run_chunk(cmd, c, timeout, env), chunks))
    return [x for r in res for x in r]


def run_model(component, lines, **kw):
    return run_lines([MODEL, component], lines, **kw)


def run_impl(component, lines, **kw):
    return run_lines([HARNESS, component], lines, **kw)


# ------------------------------------------------------------------------------- the check object
class Check:
    def __init__(self, pid, tier, seed, level="proof"):
        self.pid, self.tier, self.seed, self.level = pid, tier, seed, level
        self.t0 = time.time()
        self.rng = random.Random(seed)
        self.streams = {}
        self.violations = []      # dicts: stream, family, case, expected, observed, kind, signature
        self.samples = []
        self.evaluations = 0
        self.nontrivial = set()
        self.notes = []
        self.proof = None
        self.regen = None
        self.partial = []
        self.assumptions = []
        self.extra = {}

    def stream(self, name, **kw):
        s = self.streams.setdefault(name, {"cases": 0, "disagreements": 0, "spec_failures": 0, "crashes": 0, "timeouts": 0, "distribution": {}})
        s.update(kw)
        return s

    def count(self, name, case, nontrivial=True, kind=None):
        s = self.stream(name)
        s["cases"] += 1
        self.evaluations += 1
        if kind:
            s["distribution"][kind] = s["distribution"].get(kind, 0) + 1
        if nontrivial:
            self.nontrivial.add(hashlib.md5((name + "|" + case).encode()).digest()[:8])

    def violation(self, stream, family, case, expected, observed, kind="failing-input", signature=None, detail=""):
        s = self.stream(stream)
        if kind == "failing-input":
            s["spec_failures"] += 1
        else:
            s["disagreements"] += 1
        sig = {"stream": stream, "family": family}
        sig.update(signature or {})
        self.violations.append({"stream": stream, "family": family, "case": case, "expected": expected,
                                "observed": observed, "kind": kind, "signature": sig, "detail": detail})

    def compare(self, stream, cases, model_out, impl_out, family="mismatch", classify=None, nontrivial=None, kind_of=None):
        """Line-by-line comparison of model and implementation output for one stream."""
        s = self.stream(stream)
        for i, c in enumerate(cases):
            m = model_out[i] if i < len(model_out) else "<no model output>"
            o = impl_out[i] if i < len(impl_out) else "<no impl output>"
            self.count(stream, c, nontrivial=(nontrivial(c, m) if nontrivial else True), kind=(kind_of(c, m) if kind_of else None))
            if o.startswith("crash"):
                s["crashes"] += 1
            if m != o:
                fam, sig = (classify(c, m, o) if classify else (family, {}))
                self.violation(stream, fam, c, m, o, signature=sig)
        if cases and len(self.samples) < 12:
            k = self.rng.randrange(len(cases))
            self.samples.append({"stream": stream, "case": cases[k], "model": model_out[k] if k < len(model_out) else None,
                                 "impl": impl_out[k] if k < len(impl_out) else None})

    # ---------------------------------------------------------------- finish
    def finish(self):
        known = json.load(open(os.path.join(V, "known_findings.json")))["entries"]
        known = [k for k in known if k.get("status") == "known" and k.get("property") == self.pid]

        def matches(entry, sig):
            for k, v in entry.get("match", {}).items():
                sv = str(sig.get(k, ""))
                if isinstance(v, str) and v.startswith("re:"):
                    if not re.search(v[3:], sv):
                        return False
                elif str(v) != sv:
                    return False
            return True

        hits, fresh = {}, []
        for v in self.violations:
            e = next((k for k in known if matches(k, v["signature"])), None)
            if e:
                hits.setdefault(e["id"], {"entry": e, "n": 0, "example": v["case"]})["n"] += 1
            else:
                fresh.append(v)
        lines = []
        for kid, h in hits.items():
            lines.append("KNOWN-FINDING: property=%s %s (%s; %d case(s) this run, e.g. %s)" % (self.pid, h["entry"]["what"], kid, h["n"], str(h["example"])[:120]))
        proof_broken = bool(self.proof and not self.proof["ok"])
        os.makedirs(os.path.join(V, "replays"), exist_ok=True)
        exit_code = 0
        failing = [v for v in fresh if v["kind"] == "failing-input"]
        corr = [v for v in fresh if v["kind"] != "failing-input"]
        reported = []
        if failing:
            # one replay per distinct family (smallest case first)
            byfam = {}
            for v in failing:
                byfam.setdefault(v["family"], []).append(v)
            for fam, vs in byfam.items():
                vs.sort(key=lambda v: len(str(v["case"])))
                v = vs[0]
                h = hashlib.sha256((self.pid + fam + str(v["case"])).encode()).hexdigest()[:12]
                path = os.path.join(V, "replays", "%s-%s.json" % (self.pid, h))
                json.dump({"property": self.pid, "kind": "failing-input", "stream": v["stream"], "family": fam,
                           "case": v["case"], "expected": v["expected"], "observed": v["observed"], "detail": v["detail"],
                           "count_in_family": len(vs), "broken_obligation": (self.proof or {}).get("failed"),
                           "reproduce": "bin/vcheck %s --replay %s" % (self.pid, path)}, open(path, "w"), indent=1)
                lines.append("VIOLATION property=%s replay=%s" % (self.pid, path))
                reported.append(path)
            exit_code = 1
        elif proof_broken or corr:
            what = []
            if proof_broken:
                what.append({"theorem_or_file": self.proof["failed"]})
            if corr:
                what.append({"correspondence_streams": sorted({v["stream"] for v in corr}),
                             "sample_disagreement": {k: corr[0][k] for k in ("stream", "case", "expected", "observed")}})
            h = hashlib.sha256((self.pid + json.dumps(what, sort_keys=True, default=str)).encode()).hexdigest()[:12]
            path = os.path.join(V, "replays", "%s-%s.json" % (self.pid, h))
            json.dump({"property": self.pid, "kind": "no-failing-input-found", "no_longer_checks": what,
                       "searched": {n: s["cases"] for n, s in self.streams.items()},
                       "reproduce": "bin/vcheck %s --tier %s" % (self.pid, self.tier)}, open(path, "w"), indent=1, default=str)
            lines.append("VIOLATION property=%s replay=%s no-failing-input-found" % (self.pid, path))
            reported.append(path)
            exit_code = 1
        self.write_evidence(len(fresh) + (1 if proof_broken else 0), hits, reported)
        for l in lines:
            print(l)
        print("%s: %s tier, %d evaluations, %d theorems (%d discharged), %d violation(s), %d known finding(s), %.1fs" % (
            self.pid, self.tier, self.evaluations, (self.proof or {}).get("obligations", 0), (self.proof or {}).get("discharged", 0),
            len(fresh) + (1 if proof_broken else 0), len(hits), time.time() - self.t0))
        sys.stdout.flush()
        return exit_code

    def write_evidence(self, nviol, hits, replays):
        pr = self.proof or {"obligations": 0, "discharged": 0, "theorems": [], "axioms": {}, "failed": []}
        cov = {
            "obligations": pr["obligations"], "discharged": pr["discharged"],
            "checker_cmd": "make -C coq Props/%s.vo (coqc 8.16.1, full .vo) + coqc Print Assumptions on every theorem%s" % (
                self.pid, "; coqchk -o" if self.tier == "thorough" else ""),
            "trusted_base": TRUSTED_BASE_COMMON + self.assumptions,
            "theorems": pr.get("theorems", []), "axioms_per_theorem": pr.get("axioms", {}),
            "proof_failures": pr.get("failed", []), "coqchk": pr.get("coqchk"),
            "evaluations": max(self.evaluations, 1), "distinct_nontrivial": len(self.nontrivial),
            "rule": self.extra.get("rule", "cases are generated per stream (see correspondence); a case is non-trivial when it exercises the property's mechanism; distinct by hash of (stream, case)"),
            "samples": self.samples[:12] or [{"note": "no correspondence cases ran"}],
            "correspondence": self.streams, "fragments": self.regen, "known_findings_hit": {k: h["n"] for k, h in hits.items()},
            "partial": self.partial, "replays": replays, "notes": self.notes,
        }
        cov.update({k: v for k, v in self.extra.items() if k != "rule"})
        ev = {"property_id": self.pid, "tier": self.tier, "seed": self.seed, "level": self.level, "coverage": cov,
              "assumptions": TRUSTED_BASE_COMMON + self.assumptions, "wall_s": round(time.time() - self.t0, 2), "violations": nviol}
        # a development run without the proof step (bin/vcheck --no-prove) is not a record of the check: it is written aside
        edir = os.path.join(V, "evidence") if self.proof is not None else os.path.join(CACHE, "evidence-no-prove")
        os.makedirs(edir, exist_ok=True)
        tmp = os.path.join(edir, self.pid + ".json.tmp")
        json.dump(ev, open(tmp, "w"), indent=1, default=str)
        os.replace(tmp, os.path.join(edir, self.pid + ".json"))
