"""Token-level printer for slicegen programs with random layouts (C02, C09).

`Printer(rng).file(f)` turns one generated file into tokens plus the expected AST, as nested lists in the vocabulary of the
model driver `syntax` (model/m_syntax.ml), where every location is a pair of token indices.  `layout(rng, tokens, style)`
places the tokens in a text (white space, tabs, line breaks, CRLF, ordinary comments, removed preprocessor blocks between
them; optional commas, escaped identifiers, literal spellings were chosen while printing) and returns the text and the
location of every token; `resolve` then replaces token indices by row:col locations."""
from . import slicegen

KEYWORDS = set(slicegen.KEYWORDS)


class Sp:
    def __init__(self, a, b):
        self.a, self.b = a, b


class At:
    """an atom <prefix>@<span>"""
    def __init__(self, prefix, sp):
        self.prefix, self.sp = prefix, sp


class Printer:
    def __init__(self, rng, commas=True, escapes=True, bases=True):
        self.rng, self.toks = rng, []
        self.trrefs = {}
        self.refs = {}       # (first token, last token) of a written type name -> (target scoped id, target kind)
        self.commas, self.escapes, self.bases = commas, escapes, bases

    # ------------------------------------------------------------------ tokens
    def t(self, text, kind="p"):
        self.toks.append((text, kind))
        return len(self.toks) - 1

    def ident(self, name, attr_mode=False):
        esc = (name in KEYWORDS and not attr_mode) or (self.escapes and self.rng.random() < 0.05)
        i = self.t(("\\" if esc else "") + name, "w")
        return i

    def scoped(self, text, attr_mode=False):
        """A::B or ::A::B as separate tokens; returns the span"""
        g = text.startswith("::")
        segs = (text[2:] if g else text).split("::")
        first = None
        for k, s in enumerate(segs):
            if k > 0 or g:
                i = self.t("::")
                first = i if first is None else first
            i = self.ident(s, attr_mode)
            first = i if first is None else first
        return Sp(first, i)

    def maybe_comma(self, last):
        if self.commas and self.rng.random() < (0.3 if last else 0.5):
            self.t(",")

    def string(self, s):
        out = []
        for ch in s:
            if ch in '"\\':
                out.append("\\" + ch)
            elif ch != "\n" and self.rng.random() < 0.05:
                out.append("\\" + ch)      # a needless escape: the backslash is dropped
            else:
                out.append(ch)
        return self.t('"' + "".join(out) + '"', "s")

    def integer(self, v, base=None):
        """|v| in some base with underscores; returns the token index"""
        rng = self.rng
        base = base or rng.choice(["dec", "dec", "hex", "bin"])
        a = abs(v)
        digits = {"dec": str(a), "hex": ("%X" if rng.random() < 0.5 else "%x") % a, "bin": bin(a)[2:]}[base]
        if rng.random() < 0.2:
            digits = "0" * rng.choice([1, 2]) + digits
        if rng.random() < 0.3 and len(digits) > 1:
            k = rng.randrange(1, len(digits))
            digits = digits[:k] + "_" + digits[k:]
        if rng.random() < 0.1:
            digits += "_"
        pre = {"dec": "", "hex": "0x", "bin": "0b"}[base]
        if pre and rng.random() < 0.1:
            pre = "0_" + pre[1]
        return self.t(pre + digits, "w")

    def signed(self, v, base=None):
        if v < 0:
            m = self.t("-")
            i = self.integer(v, base)
            return Sp(m, i)
        i = self.integer(v, base)
        return Sp(i, i)

    # ------------------------------------------------------------------ grammar
    def attribute(self, a):
        d, args = a
        sp = self.scoped(d, attr_mode=True)
        last = sp.b
        if args or self.rng.random() < 0.1:
            self.t("(")
            for k, x in enumerate(args):
                simple = x and x.isascii() and all(c.isalnum() or c == "_" for c in x) and x[0].isalpha()
                if simple and self.rng.random() < 0.5:
                    self.t(x, "w")
                else:
                    self.string(x)
                if k < len(args) - 1:
                    self.t(",")
                elif self.rng.random() < 0.2:
                    self.t(",")
            last = self.t(")")
        return ["a", d, [x.encode().hex() or "-" for x in args], Sp(sp.a, last)]

    def local_attrs(self, attrs):
        out = ["attrs"]
        for a in attrs:
            self.t("[")
            out.append(self.attribute(a))
            self.t("]")
        return out

    def prelude(self, doc, attrs):
        """doc lines and attributes interleaved; returns (doc node, attrs node)"""
        docs = list(doc or [])
        ats = list(attrs)
        dn, an = [], ["attrs"]
        while docs or ats:
            if docs and (not ats or self.rng.random() < 0.6):
                dn.append(self.t("///" + docs.pop(0), "d"))
            else:
                a = ats.pop(0)
                self.t("[")
                an.append(self.attribute(a))
                self.t("]")
        return (["doc", str(len(dn)), Sp(dn[0], dn[0]), Sp(dn[-1], dn[-1])] if dn else ["doc", "-"]), an

    def typeref(self, t):
        start = len(self.toks)
        an = self.local_attrs(t.get("attrs", []))
        k = t["k"]
        if k == "prim":
            i = self.t(t["name"], "w")
            tgt = ["prim", t["name"]]
        elif k == "named":
            sp = self.scoped(t["text"])
            i = sp.b
            tgt = ["ref", t["text"], sp]
            self.refs[(sp.a, sp.b)] = (t.get("id"), t.get("kind"))
        elif k == "seq":
            self.t("Sequence", "w")
            self.t("<")
            e = self.typeref(t["e"])
            i = self.t(">")
            tgt = ["seq", e]
        else:
            self.t("Dictionary" if k == "dict" else "Result", "w")
            self.t("<")
            a = self.typeref(t["key"] if k == "dict" else t["ok"])
            self.t(",")
            b = self.typeref(t["val"] if k == "dict" else t["err"])
            i = self.t(">")
            tgt = ["dict" if k == "dict" else "res", a, b]
        if t.get("opt"):
            i = self.t("?")
        if k == "named":
            self.trrefs[(start, i)] = (t.get("id"), t.get("kind"))
        return ["tr", Sp(start, i), "1" if t.get("opt") else "0", an, tgt]

    def tag(self, m):
        if m.get("tag") is None:
            return "-", None
        s = self.t("tag", "w")
        self.t("(")
        sp = self.signed(m["tag"])
        self.t(")")
        return At(str(m["tag"]), sp), s

    def member(self, m, is_param):
        doc, an = self.prelude(None if is_param else m.get("doc"), m["attrs"])
        tg, ts = self.tag(m)
        n = self.ident(m["name"])
        self.t(":")
        if is_param and m.get("stream"):
            self.t("stream", "w")
        tr = self.typeref(m["type"])
        sp = Sp(ts if ts is not None else n, tr[1].b)
        if is_param:
            return ["param", m["name"], Sp(n, n), tg, "1" if m.get("stream") else "0", sp, an, tr]
        return ["field", m["name"], Sp(n, n), tg, sp, an, doc, tr]

    def members(self, ms, is_param):
        out = []
        for k, m in enumerate(ms):
            out.append(self.member(m, is_param))
            self.maybe_comma(k == len(ms) - 1)
        return out

    def definition(self, d):
        k = d["kind"]
        doc, an = self.prelude(d.get("doc"), d["attrs"])
        if k == "struct":
            s = self.t("compact", "w") if d["compact"] else None
            s2 = self.t("struct", "w")
            n = self.ident(d["name"])
            self.t("{")
            fs = self.members(d["fields"], False)
            self.t("}")
            return ["struct", d["name"], Sp(n, n), "1" if d["compact"] else "0", Sp(s if s is not None else s2, n), an, doc, ["fields"] + fs]
        if k == "enum":
            s = None
            if d["compact"]:
                s = self.t("compact", "w")
            if d["unchecked"]:
                u = self.t("unchecked", "w")
                s = u if s is None else s
            e = self.t("enum", "w")
            s = e if s is None else s
            n = self.ident(d["name"])
            if d["underlying"]:
                self.t(":")
                u0 = len(self.toks)
                uan = self.local_attrs(d.get("underlying_attrs", []))
                ui = self.t(d["underlying"], "w")
                if d.get("underlying_opt"):
                    ui = self.t("?")
                under = ["under", Sp(u0, ui), "1" if d.get("underlying_opt") else "0", uan, ["prim", d["underlying"]]]
            else:
                under = ["under", "-"]
            self.t("{")
            ens = ["enumerators"]
            for j, en in enumerate(d["enumerators"]):
                edoc, ean = self.prelude(en.get("doc"), en["attrs"])
                ni = self.ident(en["name"])
                last = ni
                if en["fields"] is not None:
                    self.t("(")
                    fs = self.members(en["fields"], False)
                    last = self.t(")")
                else:
                    fs = ["-"]
                if en["value"] is not None:
                    self.t("=")
                    vsp = self.signed(en["value"], en.get("base"))
                    last = vsp.b
                    ex = At("explicit", vsp)
                else:
                    ex = "implicit"
                ens.append(["enumerator", en["name"], Sp(ni, ni), str(en["actual"]), ex, Sp(ni, last), ean, edoc, ["fields"] + fs])
                self.maybe_comma(j == len(d["enumerators"]) - 1)
            self.t("}")
            return ["enum", d["name"], Sp(n, n), "1" if d["compact"] else "0", "1" if d["unchecked"] else "0", Sp(s, n), an, doc, under, ens]
        if k == "interface":
            s = self.t("interface", "w")
            n = self.ident(d["name"])
            bases = ["bases"]
            if d["bases"]:
                self.t(":")
                for j, b in enumerate(d["bases"]):
                    tr = self.typeref(b)
                    bases.append(["base", tr[1], tr[3], tr[4]])
                    if j < len(d["bases"]) - 1:
                        self.t(",")
                    elif self.commas and self.rng.random() < 0.2:
                        self.t(",")
            self.t("{")
            ops = ["ops"]
            for o in d["ops"]:
                odoc, oan = self.prelude(o.get("doc"), o["attrs"])
                i0 = self.t("idempotent", "w") if o["idempotent"] else None
                ni = self.ident(o["name"])
                self.t("(")
                ps = self.members(o["params"], True)
                last = self.t(")")
                rs = o["returns"]
                rets = []
                if len(rs) == 1 and not o.get("tuple"):
                    m = rs[0]
                    self.t("->")
                    tg, ts = self.tag(m)
                    st = self.t("stream", "w") if m.get("stream") else None
                    tr = self.typeref(m["type"])
                    first = ts if ts is not None else (st if st is not None else tr[1].a)
                    sp = Sp(first, tr[1].b)
                    rets = [["param", "returnValue", sp, tg, "1" if m.get("stream") else "0", sp, ["attrs"], tr]]
                    last = tr[1].b
                elif rs or o.get("tuple"):
                    self.t("->")
                    self.t("(")
                    rets = self.members(rs, True)
                    last = self.t(")")
                ops.append(["op", o["name"], Sp(ni, ni), "1" if o["idempotent"] else "0", Sp(i0 if i0 is not None else ni, last), oan, odoc, ["params"] + ps, ["rets"] + rets])
            self.t("}")
            return ["interface", d["name"], Sp(n, n), Sp(s, n), an, doc, bases, ops]
        if k == "custom":
            s = self.t("custom", "w")
            n = self.ident(d["name"])
            return ["custom", d["name"], Sp(n, n), Sp(s, n), an, doc]
        s = self.t("typealias", "w")
        n = self.ident(d["name"])
        self.t("=")
        tr = self.typeref(d["type"])
        return ["alias", d["name"], Sp(n, n), Sp(s, n), an, doc, tr]

    def file(self, f):
        fa = ["attrs"]
        for a in f.get("fattrs", []):
            self.t("[[")
            fa.append(self.attribute(a))
            self.t("]]")
        if f.get("module") is None:
            # a file that declares no module (and then no definition): its file attributes are all it says
            return ["file", "-", ["module", "-"], fa, ["defs"]]
        _, man = self.prelude(None, f.get("mattrs", []))
        s = self.t("module", "w")
        sp = self.scoped(f["module"])
        mod = ["module", f["module"], sp, Sp(s, sp.b), man]
        defs = ["defs"] + [self.definition(d) for d in f["defs"]]
        return ["file", "-", mod, fa, defs]


# -------------------------------------------------------------------------------------------------- layout
def needs_sep(a, b):
    (ta, ka), (tb, kb) = a, b
    if ka == "d":
        return "nl"
    la, fb = ta[-1], tb[0]
    if (la.isalnum() or la == "_") and (fb.isalnum() or fb == "_"):
        return "ws"
    if la + fb in ("[[", "]]", "::", "->", "//", "/*"):
        return "ws"
    return None


COMMENTS = ["// c", "// ünï {", "//", "//// four slashes", "// \"quote", "//\ttab"]
BLOCKS = ["/* c */", "/**/", "/* ü\n * two lines */", "/*/ tricky */", "/* [[ ]] \" */"]
REMOVED = ["#if NOPE\nstruct Removed {\n#endif", "#if NOPE && X\n\"unterminated\n#else\n#endif", "#define LOCAL"]


def layout(rng, toks, style="mixed"):
    """-> (text, [(start(row, col), end(row, col))] per token).  Styles: plain, dense, mixed (tabs, comments, CRLF, removed blocks)."""
    crlf = style == "mixed" and rng.random() < 0.2
    nl = "\r\n" if crlf else "\n"
    out = []
    prev = None
    pieces = []
    for tok in toks:
        need = needs_sep(prev, tok) if prev else None
        if style == "plain":
            sep = nl if need == "nl" or (prev and prev[0] in ("{", "}")) else (" " if prev else "")
        elif style == "dense":
            sep = nl if need == "nl" else (" " if need == "ws" else "")
        elif style == "tabs":
            # tabs everywhere: before, inside and right after every element, several elements per line
            sep = rng.choice(["\t", " \t", "\t\t", " ", "\t ", "", "\t// c\t" + nl + "\t"]) if rng.random() < 0.9 else nl + "\t"
            if need == "nl" and not sep.startswith(("\n", "\r\n")):
                sep = nl + sep
            if need == "ws" and sep == "":
                sep = "\t"
        else:
            r = rng.random()
            if r < 0.45:
                sep = rng.choice([" ", " ", "  ", "\t", " \t "])
            elif r < 0.6:
                sep = nl + rng.choice(["", "    ", "\t", "  "])
            elif r < 0.68:
                sep = " " + rng.choice(COMMENTS) + nl
            elif r < 0.76:
                sep = rng.choice(["", " "]) + rng.choice(BLOCKS).replace("\n", nl) + rng.choice(["", " "])
            elif r < 0.8:
                sep = nl + nl + "  "
            elif r < 0.83:
                sep = nl + rng.choice(REMOVED).replace("\n", nl) + nl + rng.choice(["", "", "    ", "\t", "  \t "])   # the kept text may start indented
            elif r < 0.85:
                # white space other than blank and tab, directly after the previous token or after a blank: no-break space, vertical tab,
                # form feed, em space, ideographic space, line separator
                sep = rng.choice(["", " "]) + rng.choice(["\u00a0", "\x0b", "\x0c", "\u2003", "\u3000", "\u2028", "\u00a0\u00a0"]) + rng.choice(["", " "])
            else:
                sep = ""
            if need == "nl" and not sep.startswith(("\n", "\r\n")):
                sep = nl + sep
            if need == "ws" and sep == "":
                sep = " "
            # an ordinary comment must not swallow or become a doc comment / directive
            if tok[1] == "d" and sep.endswith("/"):
                sep += " "
        pieces.append(sep)
        pieces.append(tok[0])
        prev = tok
    if style == "mixed" and len(toks) > 4 and rng.random() < 0.35:
        # a range of tokens inside a branch of a conditional that is kept: "#if !NOPE" .. "#endif", or the "#else" branch of "#if NOPE", possibly with a
        # removed branch around it; the directive lines stand on their own between two tokens
        i = rng.randrange(0, len(toks) - 1)
        j = rng.randrange(i + 1, len(toks) + 1)
        opener, closer = rng.choice([("#if !NOPE", "#endif"), ("#if NOPE\nremoved( {\n#else", "#endif"), ("#if !NOPE", "#else\n\"removed\n#endif"),
                                     ("  #if !NOPE // kept", "\t#endif"), ("#if NOPE\n#elif !NOPE", "#elif OTHER\nremoved\n#else\nremoved too\n#endif")])
        ind = rng.choice(["", "", "    ", "\t"])
        before = pieces[2 * i].rstrip(" \t")
        pieces[2 * i] = before + (nl if (before or i > 0) and not before.endswith("\n") else "") + opener.replace("\n", nl) + nl + ind
        if j < len(toks):
            before = pieces[2 * j].rstrip(" \t")
            pieces[2 * j] = before + (nl if not before.endswith("\n") else "") + closer.replace("\n", nl) + nl + ind
            tail = ""
        else:
            tail = nl + closer.replace("\n", nl)
    else:
        tail = ""
    text = "".join(pieces) + tail + (nl if style != "dense" or (prev and prev[1] == "d") else "")
    # positions
    locs = []
    row, col = 1, 1
    k = 0
    for i, p in enumerate(pieces):
        start = (row, col)
        for ch in p:
            if ch == "\n":
                row, col = row + 1, 1
            else:
                col += 1
        if i % 2 == 1:
            tk = toks[i // 2]
            if tk[1] == "d":
                start = (start[0], start[1] + 3)
            locs.append((start, (row, col)))
    return text, locs, crlf


def resolve(node, locs):
    if isinstance(node, Sp):
        a, b = locs[node.a][0], locs[node.b][1]
        return "%d:%d-%d:%d" % (a[0], a[1], b[0], b[1])
    if isinstance(node, At):
        return node.prefix + "@" + resolve(node.sp, locs)
    if isinstance(node, list):
        return [resolve(x, locs) for x in node]
    return node


def blocks_of(text):
    """the source blocks the preprocessor keeps (for the layouts produced here: NOPE, X and OTHER are undefined, conditions are NOPE..., !NOPE or OTHER)"""
    lines = text.split("\n")
    out, cur = [], None
    stack = []         # per open conditional: [enclosing region kept, a branch has been taken, this branch kept]
    truth = lambda cond: cond.split("//")[0].strip() == "!NOPE"
    kept = lambda: all(f[2] for f in stack)
    for i, l in enumerate(lines):
        body = l + ("\n" if i < len(lines) - 1 else "")
        st = l.lstrip()
        if st.startswith("#"):
            if st.startswith("#if"):
                t = truth(st[3:])
                stack.append([kept(), t, t])
            elif st.startswith("#elif") and stack:
                f = stack[-1]
                t = (not f[1]) and truth(st[5:])
                f[2] = t
                f[1] = f[1] or t
            elif st.startswith("#else") and stack:
                f = stack[-1]
                f[2] = not f[1]
                f[1] = True
            elif st.startswith("#endif") and stack:
                stack.pop()
            cur = None
            continue
        if not kept():
            cur = None
            continue
        if cur is None:
            cur = [i + 1, ""]
            out.append(cur)
        cur[1] += body
    return [(r, t) for r, t in out if t]
