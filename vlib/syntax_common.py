"""Shared by C02 (source-to-AST fidelity) and C09 (locations): generated programs x layouts through the printer, the real
front end (AST dump) and the model parser (coq/Syntax), normalised to one vocabulary."""
import random, re
from . import core, slicegen, layout
from .front_common import hx, parse_sexp, split_dump

SPAN = re.compile(r"^\d+:\d+-\d+:\d+$")
MEMBER_KW = ["struct", "tag", "int32", "stream", "module", "Sequence", "compact", "string", "enum", "custom"]


DEF_KW = ["string", "int32", "bool", "uint8", "float64", "varuint62", "struct", "Sequence", "module", "AnyClass", "Result", "tag"]


def rename_definitions(rng, prog):
    """some definitions are named by keywords (names of primitive types among them) and referred to by those names: a name is a name"""
    free = list(DEF_KW)
    rng.shuffle(free)
    defs = [d for f in prog["files"] for d in f["defs"]]
    renamed = {}
    for d in defs:
        if free and rng.random() < 0.12:
            new = free.pop()
            if any(x["module"] == d["module"] and x["name"] == new for x in defs):
                continue
            old = d["scoped"]
            d["name"], d["scoped"] = new, d["module"] + "::" + new
            renamed[old] = d["scoped"]
    if not renamed:
        return

    def fix(t):
        if t.get("k") == "named" and t.get("id") in renamed:
            t["id"] = renamed[t["id"]]
            t["text"] = "::".join(t["text"].split("::")[:-1] + [t["id"].split("::")[-1]])
        for k in ("e", "key", "val", "ok", "err"):
            if k in t:
                fix(t[k])
    for d in defs:
        for m in d.get("fields", []) or []:
            fix(m["type"])
        for e in d.get("enumerators", []) or []:
            for m in e.get("fields") or []:
                fix(m["type"])
        for o in d.get("ops", []) or []:
            for m in o["params"] + o["returns"]:
                fix(m["type"])
        for b in d.get("bases", []) or []:
            fix(b)
        if d["kind"] == "alias":
            fix(d["type"])


def decorate(rng, prog):
    """identifiers that collide with keywords (members only, so references stay valid) and simple doc comments"""
    rename_definitions(rng, prog)
    op_names = {o["name"] for f in prog["files"] for d in f["defs"] for o in d.get("ops", [])}
    for f in prog["files"]:
        for d in f["defs"]:
            if rng.random() < 0.3:
                d["doc"] = [" " + rng.choice(["text", "ünï", "two words", "x"]) for _ in range(rng.choice([1, 2]))]
            groups = []
            if d["kind"] == "struct":
                groups.append(d["fields"])
            elif d["kind"] == "enum":
                groups.append(d["enumerators"])
                for e in d["enumerators"]:
                    if e["fields"]:
                        groups.append(e["fields"])
                    if rng.random() < 0.1:
                        e["doc"] = [" e"]
            elif d["kind"] == "interface":
                groups.append(d["ops"])
                for o in d["ops"]:
                    groups.append(o["params"])
                    if len(o["returns"]) >= 2:
                        groups.append(o["returns"])
                    if rng.random() < 0.1:
                        o["doc"] = [" o"]
            # the built-in deprecated attribute with no reason, an empty one and real ones (members that no type reference can name, so no lint follows)
            for gi, g in enumerate(groups):
                if d["kind"] == "interface" and gi > 0:
                    continue
                for m in g:
                    if rng.random() < 0.06:
                        m["attrs"] = list(m["attrs"]) + [("deprecated", rng.choice([[], [""], [""], ["why"], ["ü \"q\""], [" "]]))]
                    # the built-in allow attribute: every lint it names, as written and as often as written
                    if rng.random() < 0.06:
                        m["attrs"] = list(m["attrs"]) + [("allow", rng.choice([["BrokenDocLink", "Deprecated", "BrokenDocLink"], ["All"], ["Deprecated", "Deprecated"],
                                                                               ["IncorrectDocComment", "All", "MalformedDocComment", "All"], ["MalformedDocComment"], ["All", "All", "All"]]))]
            for g in groups:
                # operation names must stay distinct across the whole program (an inherited operation may not be redeclared)
                used = op_names if (d["kind"] == "interface" and g is d["ops"]) else {m["name"] for m in g}
                for m in g:
                    if rng.random() < 0.12:
                        k = rng.choice(MEMBER_KW)
                        if k not in used:
                            used.add(k)
                            m["name"] = k
                    if "type" in m and g is not None and rng.random() < 0.05 and "doc" in m and d["kind"] == "struct":
                        m["doc"] = [" f"]


def norm_dump(sx, fname=None):
    """the harness dump in the model driver's vocabulary; type references located in another file (the inside of an alias
    defined there) are replaced by (tr-elsewhere)"""
    if not isinstance(sx, list) or not sx:
        return sx
    h = sx[0]
    if h == "file":
        fname = bytes.fromhex(sx[1]).decode() if sx[1] != "-" else ""
        return ["file", "-"] + [norm_dump(x, fname) for x in sx[2:]]
    if h == "tr":
        if sx[1].count(":") >= 3:
            fn, loc = sx[1].split(":", 1)
            if fname is not None and fn != fname:
                return ["tr-elsewhere"]
        else:
            loc = sx[1]
        return ["tr", loc] + [norm_dump(x, fname) for x in sx[2:]]
    if h == "doc":
        return ["doc", "-" if sx[1] == "-" else "D"]
    if h == "named":
        return ["ref", sx[2], sx[1]]
    if h == "unpatched":
        return ["ref", sx[1], "unpatched"]
    if h in ("l", "s", "p", "r", "t"):
        return sx
    return [norm_dump(x, fname) for x in sx]


def norm_model(sx):
    if not isinstance(sx, list) or not sx:
        return sx
    if sx[0] == "doc":
        return ["doc", "-" if sx[1] == "-" else "D"]
    return [norm_model(x) for x in sx]


KIND = {"struct": "struct", "enum": "enum", "custom": "custom", "interface": "interface"}


def diff(exp, got, refs, spans, path="$"):
    """first difference between an expected/model tree and the normalised dump; refs: span -> (target id, kind)"""
    if isinstance(exp, list) and isinstance(got, list):
        if exp and exp[0] == "ref":
            if not got or got[0] != "ref":
                info = refs.get(exp[2])
                if info and info[1] == "alias":
                    return None        # the alias has been replaced by its target
                return "%s: a reference to %s became %s" % (path, exp[1], str(got)[:80])
            info = refs.get(exp[2])
            if info and info[1] != "alias" and info[0] and got[2] != "unpatched":
                if got[1] != info[0]:
                    return "%s: %s designates %s, bound to %s" % (path, exp[1], info[0], got[1])
            return None
        if exp and exp[0] == "tr" and got and got[0] == "tr" and len(exp) == 5 and len(got) == 5 and exp[4] and exp[4][0] == "ref" \
                and (refs.get(exp[4][2]) or (None, None))[1] == "alias":
            # a reference to an alias: the alias has been replaced by its target, whose attributes follow the written ones
            for i in (1, 2):
                d = diff(exp[i], got[i], refs, spans, "%s/tr[%d]" % (path, i))
                if d:
                    return d
            if exp[3] != got[3][:len(exp[3])] and diff(exp[3], got[3][:len(exp[3])], refs, spans, path + "/tr[3]"):
                return "%s: attributes written on the reference are not the first attributes of the bound type" % path
            # ... and what follows them is what is written on the types of the aliases of the chain, outermost first
            chain = refs.get("__alias_chain__", {}).get((refs.get(exp[4][2]) or (None, None))[0])
            if chain is not None:
                tail = [(x[1], list(x[2])) for x in got[3][len(exp[3]):]]
                if tail != chain:
                    return "%s: a reference through aliases carries %s after its own attributes, the aliases' types carry %s" % (path, tail, chain)
            return None
        if got and got[0] == "ref" and exp and exp[0] in ("prim", "seq", "dict", "res"):
            return "%s: %s became a reference" % (path, exp[0])
        if len(exp) != len(got):
            return "%s: %d items expected, %d found (%s | %s)" % (path, len(exp), len(got), str(exp)[:100], str(got)[:100])
        for i, (a, b) in enumerate(zip(exp, got)):
            d = diff(a, b, refs, spans, "%s/%s[%d]" % (path, exp[0] if exp and isinstance(exp[0], str) else "", i))
            if d:
                return d
        return None
    if isinstance(exp, list) != isinstance(got, list):
        return "%s: shape differs (%s | %s)" % (path, str(exp)[:80], str(got)[:80])
    if exp == got:
        return None
    es, gs = exp.split("@")[-1], got.split("@")[-1]
    if SPAN.match(es) and SPAN.match(gs):
        if not spans:
            return None if exp.split("@")[:-1] == got.split("@")[:-1] else "%s: %s vs %s" % (path, exp, got)
        return "%s: location %s expected, %s found" % (path, exp, got)
    return "%s: %s expected, %s found" % (path, exp, got)


class Case:
    pass


def make_cases(ck, n, styles, seed_rng, mutate=None):
    """n programs x styles -> list of Case(text per file, expected tree per file, refs, dump trees, model trees, diags)"""
    cases, lines, mlines = [], [], []
    for i in range(n):
        rng = random.Random(seed_rng.randrange(1 << 60))
        prog = slicegen.Gen(rng, depth=3).program()
        decorate(rng, prog)
        what = mutate(rng, prog) if mutate else None
        if rng.random() < 0.12:
            # a file without a module declaration: only file attributes, or nothing at all
            g = slicegen.Gen(rng, depth=1)
            prog["files"].insert(rng.randrange(len(prog["files"]) + 1), {"path": "extra", "module": None, "fattrs": g.attrs(1.0) + g.attrs(0.5), "mattrs": [], "defs": []})
        aliases = {d["scoped"]: d for f in prog["files"] for d in f["defs"] if d["kind"] == "alias"}

        def chain_attrs(sid, depth=0):
            t = aliases[sid]["type"]
            out = [(d_, [x.encode().hex() or "-" for x in args]) for d_, args in t.get("attrs", [])]
            if t["k"] == "named" and t.get("kind") == "alias" and t.get("id") in aliases and depth < 50:
                out += chain_attrs(t["id"], depth + 1)
            return out
        alias_chain = {sid: chain_attrs(sid) for sid in aliases}
        for style in styles:
            c = Case()
            c.prog, c.style, c.files, c.what = prog, style, [], what
            for f in prog["files"]:
                pr = layout.Printer(random.Random(rng.randrange(1 << 60)))
                tree = pr.file(f)
                text, locs, crlf = layout.layout(rng, pr.toks, style)
                exp = layout.resolve(tree, locs)
                refs = {"__alias_chain__": alias_chain}
                for (a, b), info in pr.refs.items():
                    refs["%d:%d-%d:%d" % (locs[a][0] + locs[b][1])] = info
                trrefs = {"%d:%d-%d:%d" % (locs[a][0] + locs[b][1]): info for (a, b), info in pr.trrefs.items()}
                c.files.append({"tokstarts": {"%d:%d" % l[0] for l in locs}, "tokends": {"%d:%d" % l[1] for l in locs}, "trrefs": trrefs, "text": text, "exp": exp, "refs": refs, "crlf": crlf, "ntok": len(pr.toks)})
                blocks = layout.blocks_of(text)
                mlines.append("parseb " + " ".join("%d:1:%s" % (r, hx(t)) for r, t in blocks))
            lines.append("dump - " + " ".join(hx(f["text"]) for f in c.files))
            cases.append(c)
    o = core.run_impl("dump", lines, chunk=40, timeout=300)
    m = core.run_model("syntax", mlines, chunk=300)
    k = 0
    for c, oo in zip(cases, o):
        files, diags = split_dump(oo)
        c.raw = oo
        c.diags = diags
        c.rawfiles = files
        c.dump = [norm_dump(x) for x in files] if files is not None else None
        c.model = []
        for f in c.files:
            mo = m[k]
            k += 1
            f["model_raw"] = mo
            if mo.startswith("ok "):
                body, _, dg = mo[3:].partition(" | diags")
                f["model"] = norm_model(parse_sexp(body)[0])
                f["model_diags"] = dg.split()
            else:
                f["model"] = None
    return cases


def case_text(c):
    return "\n-- next file --\n".join(f["text"] for f in c.files)
