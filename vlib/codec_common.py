"""Typed values for the codec streams (C10, C11): type parsing, generation, token syntax, canonical form."""
import random

MENU = ["bool", "u8", "u16", "u32", "u64", "i8", "i16", "i32", "i64", "str",
        "seq(u8)", "seq(bool)", "seq(i16)", "seq(str)", "seq(seq(u16))", "seq(seq(seq(u8)))", "seq(seq(str))",
        "dict(u8,bool)", "dict(i16,seq(str))", "dict(str,u8)", "dict(bool,dict(u8,u8))",
        "bdict(str,i32)", "bdict(u8,seq(bdict(u8,bool)))", "seq(dict(u8,u8))", "bdict(i64,u64)"]
EXTRA = ["varuint", "varint", "size", "f32", "f64"]          # encoder methods / floats as bit patterns
VAR_AT = ["varint@u64", "varint@usize", "varint@u8", "varint@i8", "varint@u16", "varint@i16", "varuint@i8", "varuint@u16", "varuint@i64"]
DEC_ONLY = ["varint32", "varuint32", "skiptags"] + VAR_AT

UNS = {"u8": 8, "u16": 16, "u32": 32, "u64": 64, "f32": 32, "f64": 64}
SIG = {"i8": 8, "i16": 16, "i32": 32, "i64": 64}


def parse_ty(s):
    for pre in ("seq", "dict", "bdict"):
        if s.startswith(pre + "("):
            body = s[len(pre) + 1:-1]
            if pre == "seq":
                return ("seq", parse_ty(body))
            # split at top-level comma
            depth = 0
            for i, ch in enumerate(body):
                if ch == "(":
                    depth += 1
                elif ch == ")":
                    depth -= 1
                elif ch == "," and depth == 0:
                    return (pre, parse_ty(body[:i]), parse_ty(body[i + 1:]))
    return ("p", s)


def has_hash_dict(t):
    if t[0] == "dict":
        return True
    return any(has_hash_dict(x) for x in t[1:] if isinstance(x, tuple))


def rand_string(rng, maxlen=6):
    n = rng.choice([0, 0, 1, 1, 2, 3, maxlen, rng.randrange(maxlen + 1)])
    out = []
    for _ in range(n):
        k = rng.random()
        if k < 0.4:
            c = rng.randrange(0x20, 0x7F)
        elif k < 0.55:
            c = rng.randrange(0x80, 0x800)
        elif k < 0.7:
            c = rng.choice([0x7FF, 0x800, 0xD7FF, 0xE000, 0xFFFF, 0xFFFD]) if rng.random() < 0.5 else rng.randrange(0x800, 0xD800)
        elif k < 0.85:
            c = rng.choice([0x10000, 0x10FFFF, 0x1F600]) if rng.random() < 0.5 else rng.randrange(0x10000, 0x110000)
        else:
            c = rng.choice([0, 1, 0x7F, 0x80, 0x85, 0x2028, 0xFEFF])
        out.append(chr(c))
    return "".join(out)


def rand_int(rng, lo, hi):
    k = rng.random()
    if k < 0.3:
        return rng.choice([lo, hi, 0 if lo <= 0 <= hi else lo, lo + 1, hi - 1])
    if k < 0.6:
        b = rng.randrange(0, (hi - lo).bit_length())
        v = (1 << b) + rng.randrange(-2, 3)
        if rng.random() < 0.5:
            v = -v
        return min(max(v, lo), hi)
    return rng.randrange(lo, hi + 1)


def gen_val(rng, t, depth=0):
    """Python value: bool / int / str / list / list of (k, v) pairs with distinct keys."""
    if t[0] == "p":
        p = t[1]
        if p == "bool":
            return rng.random() < 0.5
        if p in UNS:
            return rand_int(rng, 0, (1 << UNS[p]) - 1)
        if p in SIG:
            return rand_int(rng, -(1 << (SIG[p] - 1)), (1 << (SIG[p] - 1)) - 1)
        if p in ("varuint", "size"):
            return rand_int(rng, 0, (1 << 62) - 1)
        if p == "varint":
            return rand_int(rng, -(1 << 61), (1 << 61) - 1)
        if p == "str":
            return rand_string(rng)
        raise ValueError(p)
    n = rng.choice([0, 1, 1, 2, 3, rng.randrange(0, 6)]) if depth < 3 else rng.choice([0, 1])
    if rng.random() < 0.02 and depth == 0:
        n = rng.choice([63, 64, 65, 100])        # crosses the one-byte size boundary
    if t[0] == "seq":
        return [gen_val(rng, t[1], depth + 1) for _ in range(n)]
    seen, out = set(), []
    for _ in range(n):
        k = gen_val(rng, t[1], depth + 1)
        if k in seen:
            continue
        seen.add(k)
        out.append((k, gen_val(rng, t[2], depth + 1)))
    return out


def hexs(b):
    return b.hex() if b else "-"


def to_toks(t, v):
    if t[0] == "p":
        p = t[1]
        if p == "bool":
            return ["b", "1" if v else "0"]
        if p in UNS or p in ("varuint", "size"):
            return ["n", str(v)]
        if p in SIG or p == "varint":
            return ["z", str(v)]
        if p == "str":
            return ["s", hexs(v.encode("utf-8", "surrogatepass") if isinstance(v, str) else v)]
    if t[0] == "seq":
        out = ["L", str(len(v))]
        for x in v:
            out += to_toks(t[1], x)
        return out
    out = ["D", str(len(v))]
    for k, x in v:
        out += to_toks(t[1], k) + to_toks(t[2], x)
    return out


def from_toks(t, toks, i=0, canon=True):
    """Parse a token stream back into a canonical python value (dict entries sorted)."""
    if t[0] == "p":
        tag, v = toks[i], toks[i + 1]
        if tag == "b":
            return (v == "1"), i + 2
        if tag in ("n", "z"):
            return int(v), i + 2
        if tag == "s":
            return ("s", v), i + 2
        raise ValueError(tag)
    n = int(toks[i + 1])
    i += 2
    if t[0] == "seq":
        out = []
        for _ in range(n):
            x, i = from_toks(t[1], toks, i, canon)
            out.append(x)
        return out, i
    out = []
    for _ in range(n):
        k, i = from_toks(t[1], toks, i, canon)
        x, i = from_toks(t[2], toks, i, canon)
        out.append((k, x))
    if canon:
        out.sort(key=repr)
    return ("D", out), i


def canon_of_toks(t, toks):
    v, _ = from_toks(t, toks, 0, True)
    return v


def canon_of_val(t, v):
    return canon_of_toks(t, to_toks(t, v))


def order_btree(t, v):
    """BTreeMap iterates in key order (strings by UTF-8 bytes): put bdict entries in that order."""
    if t[0] == "p":
        return v
    if t[0] == "seq":
        return [order_btree(t[1], x) for x in v]
    ents = [(k, order_btree(t[2], x)) for k, x in v]
    if t[0] == "bdict":
        ents.sort(key=lambda kv: kv[0].encode("utf-8", "surrogatepass") if isinstance(kv[0], str) else kv[0])
    return ents
