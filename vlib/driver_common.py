"""Shared by the driver checks (C07, C17, C18): the real slicec binary with fake generators in a scratch directory
(harness stream `run`) against the driver model (model stream `main`)."""
import json, os
from . import core
from .front_common import hx, unhx

ENV = {"VH_SLICEC": core.SLICEC, "VH_FAKEGEN": core.FAKEGEN}


def vstr(s):
    b = s.encode() if isinstance(s, str) else s
    n = len(b)
    if n < 64:
        return bytes([n << 2]) + b
    if n < 16384:
        v = (n << 2) | 1
        return bytes([v & 0xff, v >> 8]) + b
    v = (n << 2) | 2
    return bytes([v & 0xff, (v >> 8) & 0xff, (v >> 16) & 0xff, v >> 24]) + b


def enc_reply(files, diags=()):
    """files: [(path, contents)], diags: [(level 0..2, message, source|None)]"""
    b = bytes([len(files) << 2])
    for p, c in files:
        b += vstr(p) + vstr(c) + b"\xfc"
    b += bytes([len(diags) << 2])
    for lvl, msg, src in diags:
        b += bytes([1 if src is not None else 0, lvl]) + vstr(msg) + (vstr(src) if src is not None else b"") + b"\xfc"
    return b


def run_line(dry, extra, gens, files):
    """gens: [(name, argspec|None, reply bytes|None)], files: [(kind S|R|X|D, name, text)]"""
    ex = ";".join(hx(x) for x in extra) if extra else "-"
    # a fourth component, if given, says how the generator's path is written (abs, rel, dot, dslash, updown)
    g = " ".join("%s:%s:%s%s" % (g_[0], hx(g_[1]) if g_[1] else "-", g_[2].hex() if g_[2] else "-", (":" + g_[3]) if len(g_) > 3 else "") for g_ in gens)
    # (kind B: the name is given as bytes)
    f = " ".join("%s:%s:%s" % (k, n.hex() if isinstance(n, bytes) else hx(n), hx(t) if isinstance(t, str) else (t.hex() or "-")) for k, n, t in files)
    return "run %d %s G %s F %s" % (1 if dry else 0, ex, g, f)


def parse_run(o):
    parts = o.split(" || ")
    if len(parts) != 6 or not parts[0].startswith("exit="):
        return None
    gens = {}
    for x in parts[1].split(" "):
        if x:
            n, inv, sin = x.split(":")
            gens[n] = (int(inv), sin)
    listing = {}
    for x in parts[4].split(" "):
        if x:
            n, _, d = x.partition("=")
            old = d.endswith("@old")
            d = d[:-4] if old else d
            listing[unhx(n)] = (bytes.fromhex(d) if d not in ("", "-") else b"", old)
    return {"exit": parts[0][5:], "gens": gens, "stdout": bytes.fromhex(parts[2]) if parts[2] != "-" else b"",
            "stderr": bytes.fromhex(parts[3]) if parts[3] != "-" else b"", "files": listing, "dump": parts[5]}


def json_diags(stderr):
    out = []
    for l in stderr.decode("utf-8", "replace").split("\n"):
        l = l.strip()
        if l.startswith("{"):
            try:
                out.append(json.loads(l))
            except Exception:
                out.append({"severity": "unparseable", "message": l})
    return out


def run_all(lines, **kw):
    return core.run_lines([core.HARNESS, "run"], lines, chunk=kw.pop("chunk", 20), timeout=kw.pop("timeout", 300), env=dict(os.environ, **ENV), **kw)
