"""C08: the generator request."""
import os, random
from .. import core, slicegen
from ..front_common import hx, unhx, parse_sexp, child

ALLOWED_AXIOMS = ()
NEEDS_SLICEC = True
COMPONENT = "request"
ENV = {"VH_SLICEC": core.SLICEC, "VH_FAKEGEN": core.FAKEGEN}


# ------------------------------------------------------------------------------------------------ expected content from the AST dump
def s_(x):
    return "s:" + (x.encode().hex() or "-")


def attrs_of(sx):
    # (attrs (a directive (args..) span) ...)
    return ["q"] + [["r", s_(a[1]), ["q"] + ["s:" + x for x in a[2]]] for a in sx[1:]]


def link_id(l):
    # (l ok kind scoped span) | (l unresolved ident span)
    return s_(l[3]) if l[1] == "ok" else s_(l[2])


def message(parts):
    out = ["q"]
    for c in parts:
        if c[0] == "t":
            out.append(["v", "0", "s:" + c[1]])
        else:
            out.append(["v", "1", link_id(c)])
    return out


def doc_of(doc):
    if doc[1] == "-":
        return "-"
    ov = child(doc, "overview")
    parts = [] if ov[1] == "-" else ov[2:]
    see = child(doc, "see")[1:]
    return ["r", message(parts), ["q"] + [link_id(x) for x in see]]


class Conv:
    def __init__(self):
        self.contents = []

    def typeref(self, tr):
        # (tr file:span opt (attrs) target)
        tgt = tr[4]
        return ["r", self.type_id(tgt), "t" if tr[2] == "1" else "f", attrs_of(tr[3])]

    def type_id(self, tgt):
        k = tgt[0]
        if k == "named":
            return s_(tgt[2])
        if k == "prim":
            return s_(tgt[1])
        if k == "seq":
            sym = ["v", "5", ["r", self.typeref(tgt[1])]]
        elif k == "dict":
            sym = ["v", "6", ["r", self.typeref(tgt[1]), self.typeref(tgt[2])]]
        elif k == "res":
            sym = ["v", "7", ["r", self.typeref(tgt[1]), self.typeref(tgt[2])]]
        else:
            raise ValueError("unpatched reference in an accepted program")
        self.contents.append(sym)
        return s_(str(len(self.contents) - 1))

    def entity(self, name, attrs, doc):
        return ["r", s_(name), attrs_of(attrs), doc_of(doc) if doc is not None else "-"]

    def field(self, f):
        # (field name idspan tag span attrs doc tr)
        tag = "-" if f[3] == "-" else "z:" + f[3].split("@")[0]
        return ["r", self.entity(f[1], f[5], f[6]), tag, self.typeref(f[7])]

    def param(self, p, comment):
        # (param name idspan tag stream span attrs tr)
        tag = "-" if p[3] == "-" else "z:" + p[3].split("@")[0]
        return ["r", ["r", s_(p[1]), attrs_of(p[6]), comment], tag, self.typeref(p[7])]

    def convert(self, defs):
        for d in defs:
            k = d[0]
            if k == "struct":
                ei = self.entity(d[1], child(d, "attrs"), child(d, "doc"))
                fields = ["q"] + [self.field(f) for f in child(d, "fields")[1:]]
                sym = ["v", "3", ["r", ei, "t" if d[3] == "1" else "f", fields]]
            elif k == "interface":
                ei = self.entity(d[1], child(d, "attrs"), child(d, "doc"))
                bases = ["q"] + [s_(b[3][2]) for b in child(d, "bases")[1:]]
                ops = ["q"]
                for o in child(d, "ops")[1:]:
                    doc = child(o, "doc")
                    ptags = {} if doc[1] == "-" else {p[1]: p[3:] for p in child(doc, "params")[1:]}
                    rtags = [] if doc[1] == "-" else [(r[1], r[3:]) for r in child(doc, "returns")[1:]]
                    ps, rs = child(o, "params")[1:], child(o, "rets")[1:]

                    def pdoc(p):
                        # first @param tag with that name (a later duplicate is ignored)
                        for t in ([] if doc[1] == "-" else child(doc, "params")[1:]):
                            if t[1] == p[1]:
                                return ["r", message(t[3:]), ["q"]]
                        return "-"

                    def rdoc(p):
                        # the documentation written for this return value: `@returns name:` for a tuple member, `@returns:` for a single return
                        for name, parts in rtags:
                            if (name == "-" and len(rs) == 1) or (name != "-" and name == p[1]):
                                return ["r", message(parts), ["q"]]
                        return "-"
                    oei = self.entity(o[1], child(o, "attrs"), doc)
                    params = ["q"] + [self.param(p, pdoc(p)) for p in ps]
                    rets = ["q"] + [self.param(p, rdoc(p)) for p in rs]
                    ops.append(["r", oei, "t" if o[3] == "1" else "f", params, "t" if ps and ps[-1][4] == "1" else "f", rets, "t" if rs and rs[-1][4] == "1" else "f"])
                sym = ["v", "0", ["r", ei, bases, ops]]
            elif k == "enum":
                ei = self.entity(d[1], child(d, "attrs"), child(d, "doc"))
                und = child(d, "under")
                ens = child(d, "enumerators")[1:]
                if und[1] != "-":
                    es = ["q"]
                    for e in ens:
                        v = int(e[3])
                        es.append(["r", self.entity(e[1], child(e, "attrs"), child(e, "doc")), "n:%d" % abs(v), "t" if v < 0 else "f"])
                    sym = ["v", "1", ["r", ei, "t" if d[4] == "1" else "f", s_(und[4][1] + ("?" if und[2] == "1" else "")), es]]
                else:
                    vs = ["q"]
                    for e in ens:
                        fl = child(e, "fields")[1:]
                        fl = [] if fl == ["-"] else fl
                        eei = self.entity(e[1], child(e, "attrs"), child(e, "doc"))
                        vs.append(["r", eei, "z:" + e[3], ["q"] + [self.field(f) for f in fl]])
                    sym = ["v", "2", ["r", ei, "t" if d[3] == "1" else "f", "t" if d[4] == "1" else "f", vs]]
            elif k == "custom":
                sym = ["v", "4", ["r", self.entity(d[1], child(d, "attrs"), child(d, "doc"))]]
            else:
                ei = self.entity(d[1], child(d, "attrs"), child(d, "doc"))
                sym = ["v", "8", ["r", ei, self.typeref(d[-1])]]
            self.contents.append(sym)
        return ["q"] + self.contents


def expected_file(fsx):
    mod = child(fsx, "module")
    return ["r", "s:" + fsx[1], ["r", s_(mod[1]), attrs_of(mod[4])], attrs_of(child(fsx, "attrs")), Conv().convert(child(fsx, "defs")[1:])]


# ------------------------------------------------------------------------------------------------ the AST dump as input of the Coq converter model
def hx_(x):
    return x.encode().hex() or "-"


def t_attrs(sx):
    out = [str(len(sx) - 1)]
    for a in sx[1:]:
        out += [hx_(a[1]), str(len(a[2]))] + list(a[2])
    return out


def t_link(l):
    return hx_(l[3]) if l[1] == "ok" else hx_(l[2])


def t_msg(parts):
    out = [str(len(parts))]
    for c in parts:
        out += ["t", c[1]] if c[0] == "t" else ["l", t_link(c)]
    return out


def t_doc(doc):
    if doc is None or doc[1] == "-":
        return ["-"]
    ov = child(doc, "overview")
    out = ["doc"] + t_msg([] if ov[1] == "-" else ov[2:])
    see = child(doc, "see")[1:]
    out += [str(len(see))] + [t_link(x) for x in see]
    ps = child(doc, "params")[1:]
    out.append(str(len(ps)))
    for p in ps:
        out += [hx_(p[1])] + t_msg(p[3:])
    rs = child(doc, "returns")[1:]
    out.append(str(len(rs)))
    for r in rs:
        out += ["-" if r[1] == "-" else hx_(r[1])] + t_msg(r[3:])
    return out


def t_tref(tr):
    tgt = tr[4]
    k = tgt[0]
    if k == "named":
        t = ["n", hx_(tgt[2])]
    elif k == "prim":
        t = ["p", hx_(tgt[1])]
    elif k == "seq":
        t = ["q"] + t_tref(tgt[1])
    elif k in ("dict", "res"):
        t = ["d" if k == "dict" else "r"] + t_tref(tgt[1]) + t_tref(tgt[2])
    else:
        raise ValueError("unpatched reference in an accepted program")
    return t + [tr[2]] + t_attrs(tr[3])


def t_tag(x):
    return "-" if x == "-" else x.split("@")[0]


def t_field(f):
    return [hx_(f[1])] + t_attrs(f[5]) + t_doc(f[6]) + [t_tag(f[3])] + t_tref(f[7])


def t_param(p):
    return [hx_(p[1])] + t_attrs(p[6]) + [t_tag(p[3]), p[4]] + t_tref(p[7])


def t_def(d):
    k = d[0]
    head = [hx_(d[1])] + t_attrs(child(d, "attrs")) + t_doc(child(d, "doc"))
    if k == "struct":
        fs = child(d, "fields")[1:]
        return ["struct"] + head + [d[3], str(len(fs))] + [x for f in fs for x in t_field(f)]
    if k == "interface":
        bases = child(d, "bases")[1:]
        ops = child(d, "ops")[1:]
        out = ["iface"] + head + [str(len(bases))] + [hx_(b[3][2]) for b in bases] + [str(len(ops))]
        for o in ops:
            ps, rs = child(o, "params")[1:], child(o, "rets")[1:]
            out += [hx_(o[1])] + t_attrs(child(o, "attrs")) + t_doc(child(o, "doc")) + [o[3], str(len(ps))] + [x for p in ps for x in t_param(p)] + [str(len(rs))] + [x for p in rs for x in t_param(p)]
        return out
    if k == "enum":
        und = child(d, "under")
        ens = child(d, "enumerators")[1:]
        out = ["enum"] + head + [d[3], d[4], "-" if und[1] == "-" else hx_(und[4][1] + ("?" if und[2] == "1" else "")), str(len(ens))]
        for e in ens:
            fl = child(e, "fields")[1:]
            fl = [] if fl == ["-"] else fl
            out += [hx_(e[1])] + t_attrs(child(e, "attrs")) + t_doc(child(e, "doc")) + [e[3], str(len(fl))] + [x for f in fl for x in t_field(f)]
        return out
    if k == "custom":
        return ["custom"] + head
    return ["alias"] + head + t_tref(d[-1])


def model_file_line(fsx):
    mod = child(fsx, "module")
    defs = child(fsx, "defs")[1:]
    return "conv " + " ".join([fsx[1] or "-", hx_(mod[1])] + t_attrs(mod[4]) + t_attrs(child(fsx, "attrs")) + [str(len(defs))] + [x for d in defs for x in t_def(d)])


def first_diff(a, b, path="$"):
    if isinstance(a, list) and isinstance(b, list):
        for i, (x, y) in enumerate(zip(a, b)):
            d = first_diff(x, y, "%s[%d]" % (path, i))
            if d:
                return d
        if len(a) != len(b):
            return "%s: length %d vs %d" % (path, len(a), len(b))
        return None
    if a != b:
        def show(x):
            if isinstance(x, str) and x.startswith("s:"):
                return "s:%r" % unhx(x[2:])
            return repr(x)[:120]
        return "%s: expected %s, got %s" % (path, show(a), show(b))
    return None


# ------------------------------------------------------------------------------------------------ documentation for generated programs
def add_docs(rng, prog):
    names = [d["name"] for f in prog["files"] for d in f["defs"]] + ["Nope", "M::Missing"]
    scoped = [d["scoped"] for f in prog["files"] for d in f["defs"]]

    def overview():
        lines = []
        for _ in range(rng.choice([0, 1, 1, 2, 3])):
            parts = []
            for _ in range(rng.choice([1, 1, 2, 3])):
                if rng.random() < 0.3:
                    parts.append("{@link %s}" % rng.choice(names + scoped + ["::" + s for s in scoped]))
                else:
                    parts.append(rng.choice(["text", "more words", "ünï", "a \"quoted\" bit", "x"]))
            lines.append(" " + " ".join(parts))
        return lines
    for f in prog["files"]:
        for d in f["defs"]:
            if rng.random() < 0.5:
                doc = overview()
                for _ in range(rng.choice([0, 0, 1, 2])):
                    doc.append(" @see " + rng.choice(names + scoped))
                d["doc"] = doc or None
            for o in d.get("ops", []):
                rs = o["returns"]
                if rs and o["params"] and rng.random() < 0.3:
                    # a return member named like a parameter (the single unnamed return value is called returnValue)
                    if len(rs) >= 2:
                        rs[0]["name"] = o["params"][0]["name"]
                    else:
                        o["params"][0]["name"] = "returnValue"
                if rng.random() < 0.7:
                    doc = overview()
                    for p in o["params"]:
                        if rng.random() < 0.7:
                            doc.append(" @param %s: about parameter %s" % (p["name"], p["name"]))
                            if rng.random() < 0.3:
                                doc.append("   continued {@link %s} here" % rng.choice(names))
                    if len(rs) == 1 and rng.random() < 0.7:
                        doc.append(" @returns: the single result")
                    elif len(rs) >= 2:
                        for r in rs:
                            if rng.random() < 0.7:
                                doc.append(" @returns %s: about return member %s" % (r["name"], r["name"]))
                    o["doc"] = doc or None
            for m in d.get("fields", []) if d["kind"] == "struct" else []:
                if rng.random() < 0.2:
                    m["doc"] = overview() or None
            for e in d.get("enumerators", []):
                if rng.random() < 0.2:
                    e["doc"] = overview() or None


def written_program(rng):
    """a program whose request content is known from the source alone: a chain of aliases with attributes at every link, used with further attributes at
    the use site (fields, optional fields, sequence elements, parameters, return members); links written in @param and @returns messages"""
    I = lambda k: "A%d" % k
    def some_attrs(tag):
        out = []
        for j in range(rng.choice([0, 1, 1, 2])):
            out.append(("x::%s%d" % (tag, j), [rng.choice(["v", "two words", "ü", "q,r"]) for _ in range(rng.choice([0, 0, 1, 2]))]))
        return out
    L = rng.choice([1, 2, 2, 3, 4])
    base = rng.choice(["int32", "string", "T1"])
    link_attrs = [some_attrs("a%d_" % k) for k in range(L)]
    lines = ["module M", "struct T1 {}", "struct T2 {}", "custom C1"]
    for k in range(L):
        lines.append("typealias %s = %s%s" % (I(k), slicegen.r_attrs(link_attrs[k]), base if k == 0 else I(k - 1)))
    def through(k):
        """the attributes an alias contributes: its own link's, then those of the aliases below it"""
        return [a for j in range(k, -1, -1) for a in link_attrs[j]]
    expect = {"fields": [], "params": [], "rets": []}
    fl = []
    for i in range(rng.choice([1, 2, 3])):
        k, site, form = rng.randrange(L), some_attrs("s%d_" % i), rng.choice(["plain", "plain", "opt", "seq"])
        if form == "seq":
            fl.append("f%d: Sequence<%s%s>" % (i, slicegen.r_attrs(site), I(k)))
        else:
            fl.append("f%d: %s%s%s" % (i, slicegen.r_attrs(site), I(k), "?" if form == "opt" else ""))
        expect["fields"].append(("f%d" % i, form, site + through(k)))
    lines.append("struct S { %s }" % ", ".join(fl))
    targets = [("::M::T1", "M::T1"), ("M::T2", "M::T2"), ("T2", "M::T2"), ("::M::C1", "M::C1"), ("::M::S", "M::S"), ("T1", "M::T1"), ("I", "M::I"), ("M::I::op", "M::I::op"), ("S::f0", "M::S::f0")]
    def links():
        ls = [rng.choice(targets) for _ in range(rng.choice([0, 1, 1, 2]))]
        return " ".join(rng.choice(["see", "and", "x"]) + " {@link %s}" % w for w, _ in ls), [t for _, t in ls]
    doc, ps, rs = [], [], []
    for i in range(rng.choice([0, 1, 2])):
        k, site = rng.randrange(L), some_attrs("p%d_" % i)
        text, ids = links()
        if rng.random() < 0.8:
            doc.append("    /// @param p%d: %s" % (i, text))
        else:
            ids = None
        ps.append("p%d: %s%s" % (i, slicegen.r_attrs(site), I(k)))
        expect["params"].append(("p%d" % i, site + through(k), ids))
    nr = rng.choice([0, 1, 2, 2])
    for i in range(nr):
        k, site = rng.randrange(L), some_attrs("r%d_" % i)
        text, ids = links()
        if rng.random() < 0.8:
            doc.append("    /// @returns%s: %s" % (" r%d" % i if nr > 1 else "", text))
        else:
            ids = None
        rs.append(("r%d: " % i if nr > 1 else "") + slicegen.r_attrs(site) + I(k))
        expect["rets"].append(("r%d" % i if nr > 1 else "returnValue", site + through(k), ids))
    rng.shuffle(doc)       # tags in any order: each is matched by name, not by position
    # tags of one kind keep their relative order (a later duplicate is ignored); names are distinct here, so any order is fine
    ret = "" if nr == 0 else (" -> " + rs[0] if nr == 1 else " -> (%s)" % ", ".join(rs))
    lines += ["interface I {"] + doc + ["    op(%s)%s" % (", ".join(ps), ret), "}"]
    expect["base"] = "int32" if base == "int32" else ("string" if base == "string" else "M::T1")
    return "\n".join(lines) + "\n", expect


def written_stream(ck):
    rng = ck.rng
    n = 300 if ck.tier == "quick" else 3000
    ck.stream("written-in-source", description="programs whose request content is known from the source alone (not from the compiled AST): chains of 1-4 aliases with attributes at every link, used with "
              "further attributes at the use site by fields (plain, optional, sequence elements), parameters and return members -- every such type reference must arrive with the use site's attributes followed by "
              "those of every alias of the chain, outermost first, and with the final type's id; links written in @param and @returns messages must arrive with the documentation of that parameter or return member, resolved")
    progs, lines = [], []
    for _ in range(n):
        text, expect = written_program(rng)
        progs.append((text, expect))
        lines.append("run 0 - G gen-ok-1:-:- F S:%s:%s" % (hx("w.slice"), hx(text)))
    env = dict(os.environ, **ENV)
    o = core.run_lines([core.HARNESS, "run"], lines, chunk=25, timeout=300, env=env)
    reqs, idx = [], []
    for i, ((text, expect), oo) in enumerate(zip(progs, o)):
        ck.count("written-in-source", text, kind="chain of %d" % text.count("typealias"))
        parts = oo.split(" || ")
        if len(parts) != 6 or parts[0] != "exit=0":
            ck.violation("written-in-source", "valid-program-rejected", text, "exit=0", oo[:300])
            continue
        sin = dict((x.split(":")[0], x.split(":")[1:]) for x in parts[1].split(" ") if x).get("gen-ok-1", ["0", "none"])[1]
        reqs.append("req " + sin)
        idx.append(i)
    m = core.run_model("request", reqs, chunk=200)
    A = lambda attrs: ["q"] + [["r", s_(d), ["q"] + [s_(a) for a in args]] for d, args in attrs]
    for i, mo in zip(idx, m):
        text, expect = progs[i]
        if not mo.startswith("ok "):
            ck.violation("written-in-source", "request-not-decodable", text, "decodes", mo[:200])
            continue
        req = parse_sexp(mo.split(" ", 3)[3])[0]
        try:
            contents = req[2][1][4]
            sym = lambda tag, name: next(x[2] for x in contents[1:] if x[1] == tag and x[2][1][1] == s_(name))
            bad = None
            S = sym("3", "S")
            for (fname, form, attrs), f in zip(expect["fields"], S[3][1:]):
                tr = f[3]
                if form == "seq":
                    tr = contents[1:][int(unhx(tr[1][2:]))][2][1]
                    want_opt = "f"
                else:
                    want_opt = "t" if form == "opt" else "f"
                if tr[1] != s_(expect["base"]) or tr[2] != want_opt or tr[3] != A(attrs):
                    bad = ("type-reference-differs-from-source", "field %s: %s%s with attributes %s" % (fname, expect["base"], "?" if want_opt == "t" else "", attrs), repr(tr))
            op = sym("0", "I")[3][1]
            for what, exp_list, got_list in (("parameter", expect["params"], op[3][1:]), ("return member", expect["rets"], op[5][1:])):
                if len(exp_list) != len(got_list):
                    bad = ("member-count-differs-from-source", "%d %ss" % (len(exp_list), what), str(len(got_list)))
                    continue
                for (name, attrs, ids), g in zip(exp_list, got_list):
                    tr = g[3]
                    if g[1][1] != s_(name) or tr[1] != s_(expect["base"]) or tr[3] != A(attrs):
                        bad = ("type-reference-differs-from-source", "%s %s: %s with attributes %s" % (what, name, expect["base"], attrs), repr(g)[:400])
                    got_ids = None if g[1][3] == "-" else [x[2] for x in g[1][3][1][1:] if x[1] == "1"]
                    if got_ids != (None if ids is None else [s_(t) for t in ids]):
                        bad = ("documentation-differs-from-source", "%s %s documented with links to %s" % (what, name, ids), "links %s" % (None if got_ids is None else [unhx(x[2:]) for x in got_ids]))
            if bad:
                ck.violation("written-in-source", bad[0], text, bad[1], bad[2])
        except (StopIteration, IndexError, ValueError, TypeError) as e:
            ck.violation("written-in-source", "request-shape", text, "the struct S and the interface I of the source", repr(e) + " " + mo[:300])
    ck.samples.append({"stream": "written-in-source", "case": progs[0][0][:300], "impl": o[0][:200], "model": m[0][:300] if m else None})


def run(ck):
    written_stream(ck)
    rng = ck.rng
    n = 1200 if ck.tier == "quick" else 12000
    lines, metas = [], []
    for i in range(n):
        g = slicegen.Gen(random.Random(rng.randrange(1 << 60)), depth=3)
        prog = g.program()
        add_docs(rng, prog)
        texts = slicegen.render(prog)
        files = []
        for j, (f, t) in enumerate(zip(prog["files"], texts)):
            kind = "S" if (j == 0 or rng.random() < 0.5) else "R"
            # names in no particular alphabetical order, with a backslash now and then (a legal character in a file name here)
            files.append((kind, rng.choice(["f%d.slice", "dir/f%d.slice", "ü%d.slice", "zz%d.slice", "Aa%d.slice", "w\\in%d.slice", "dir/b\\s%d.slice"]) % j, t))
        if rng.random() < 0.3:
            # a file that declares a module (with attributes) and nothing else
            j = len(files)
            files.append((rng.choice("SR"), "only_module%d.slice" % j, rng.choice(["", "[[x::file(\"f\")]]\n"]) + rng.choice(["", "[x::mod] "]) + "module Empty%d\n" % j))
        args = [(rng.choice(["k", "key two", "ü", "a"]) + str(q), rng.choice(["", "v", "v,w", "x=y", "ü "])) for q in range(rng.choice([0, 0, 1, 2, 3]))]
        spec = ",".join("%s=%s" % (k.replace(",", "\\,").replace("=", "\\="), v.replace(",", "\\,").replace("=", "\\=")) for k, v in args)
        gens = [("gen-ok-1", spec)] + ([("gen-ok-2", "other=1")] if rng.random() < 0.3 else [])
        lines.append("run 0 - G %s F %s" % (" ".join("%s:%s:-" % (g_, hx(a) if a else "-") for g_, a in gens), " ".join("%s:%s:%s" % (k, hx(nm), hx(t)) for k, nm, t in files)))
        metas.append((files, gens, args))
    env = dict(os.environ, **ENV)
    o = core.run_lines([core.HARNESS, "run"], lines, chunk=25, timeout=300, env=env)
    reqs, idx = [], []
    ck.stream("requests", description="real slicec binary with capturing fake generators on generated valid programs (every definition kind, anonymous types to depth 3, aliases, doc comments with links/@param/@returns/@see, "
              "extreme enumerator values and tags) x source/reference splits x generator argument lists; the captured stdin is decoded by the schema-driven model decoder and every transmitted file is compared with what the Coq converter model (Request/Convert.v) makes of the compiled file (AST dump), and with the check's own reading of the property")
    for i, ((files, gens, args), line, oo) in enumerate(zip(metas, lines, o)):
        ck.count("requests", line, kind="%d files" % len(files))
        parts = oo.split(" || ")
        if len(parts) != 6 or not parts[0].startswith("exit="):
            ck.violation("requests", "crash", line[:300], "a run", oo[:300])
            continue
        ginfo = dict((x.split(":")[0], x.split(":")[1:]) for x in parts[1].split(" ") if x)
        if parts[0] != "exit=0":
            ck.violation("requests", "valid-program-rejected", "\n--\n".join(t for _, _, t in files), "exit=0", parts[0] + " " + bytes.fromhex(parts[3]).decode("utf-8", "replace")[:300] if parts[3] != "-" else parts[0])
            continue
        stdins = []
        for g_, a in gens:
            inv, sin = ginfo.get(g_, ["0", "none"])
            if inv != "1" or sin == "none":
                ck.violation("requests", "generator-not-run-once", line[:200], "invoked once", "%s: %s" % (g_, inv))
            stdins.append(sin)
        reqs.append("req " + stdins[0])
        idx.append((i, parts[5], stdins))
    m = core.run_model("request", reqs, chunk=200)
    conv_jobs = []
    for (i, dump, stdins), rl, mo in zip(idx, reqs, m):
        files, gens, args = metas[i]
        case = "\n--\n".join("[%s %s]\n%s" % (k, nm, t) for k, nm, t in files)
        if not mo.startswith("ok "):
            ck.violation("requests", "request-not-decodable", case, "decodes according to the Compiler schema", mo[:200])
            continue
        _, left, idsok, sx = mo.split(" ", 3)
        req = parse_sexp(sx)[0]
        if left != "0":
            ck.violation("requests", "bytes-left-over", case, "0 bytes after the arguments", left)
        if idsok != "1":
            ck.violation("requests", "type-id-not-well-founded", case, "every numeric type id refers to an earlier anonymous symbol of the same file", sx[:300])
        # the same request for every generator, followed by its own arguments
        if len(stdins) > 1:
            a1 = core.run_model("request", ["req " + s for s in stdins[1:]])
            for s, mo2 in zip(stdins[1:], a1):
                r2 = parse_sexp(mo2.split(" ", 3)[3])[0] if mo2.startswith("ok ") else None
                if r2 is None or r2[1:4] != req[1:4]:
                    ck.violation("requests", "generators-get-different-requests", case, "identical request", mo2[:200])
                elif r2[4] != ["d", [s_("other"), s_("1")]]:
                    ck.violation("requests", "arguments-differ", case, "other=1", repr(r2[4]))
        # content: operation, split, order, every file
        dumped = [x.split(" ", 1) for x in dump.split(" ;; ")] if dump else []
        exp_src = ["q"] + [expected_file(parse_sexp(sx_)[0]) for k, sx_ in dumped if k == "S"]
        exp_ref = ["q"] + [expected_file(parse_sexp(sx_)[0]) for k, sx_ in dumped if k == "R"]
        # the same files through the Coq converter model (Request/Convert.v); compared below, after one batched run of the model
        try:
            conv_jobs.append((case, [k for k, _ in dumped], [model_file_line(parse_sexp(sx_)[0]) for _, sx_ in dumped], req))
        except (ValueError, IndexError, TypeError) as e:
            ck.violation("requests", "dump-not-convertible", case, "an AST dump the converter model can read", repr(e), kind="correspondence")
        # the files arrive in the order in which they were named on the command line (read from the command line, not from the compiled state)
        for role, lst in (("S", req[2]), ("R", req[3])):
            named = [nm for k, nm, _ in files if k == role]
            got_paths = [unhx(f_[1][2:]) if f_[1] != "s:-" else "" for f_ in lst[1:]]
            if got_paths != named:
                ck.violation("requests", "file-order-differs-from-command-line", case, "%s files %s" % ("source" if role == "S" else "reference", named), str(got_paths))
        exp_args = ["d"] + [[s_(k.strip()), s_(v.strip())] for k, v in args]
        exp = ["req", s_("generateCode"), exp_src, exp_ref, exp_args]
        d = first_diff(exp, req)
        if d:
            ck.violation("requests", "content-differs", case, d, "(decoded request)", detail=d)
    # every transmitted file equals what the converter model makes of the compiled file
    flat = [l for _, _, ls, _ in conv_jobs for l in ls]
    ck.extra["files_compared_with_converter_model"] = len(flat)
    if len(flat) < n // 2:
        ck.violation("requests", "converter-model-not-exercised", "%d files of %d programs" % (len(flat), n), "most programs reach the comparison", str(len(flat)), kind="correspondence")
    mc = core.run_model("request", flat, chunk=200)
    pos = 0
    for case, kinds, ls, req in conv_jobs:
        outs = mc[pos:pos + len(ls)]
        pos += len(ls)
        got = {"S": list(req[2][1:]), "R": list(req[3][1:])}
        for k, out, line in zip(kinds, outs, ls):
            if not out.startswith("("):
                ck.violation("requests", "converter-model-failed", case, "a SliceFile value", out[:200], detail=line[:300], kind="correspondence")
                break
            want = parse_sexp(out)[0]
            have = got[k].pop(0) if got[k] else None
            d = first_diff(want, have) if have is not None else "file missing from the request"
            if d:
                ck.violation("requests", "content-differs-from-converter-model", case, d, "(decoded request)", detail=d)
                break
    ck.samples.append({"stream": "requests", "case": lines[0][:300], "impl": o[0][:300], "model": m[0][:300] if m else None, "converter_model_input": flat[0][:300] if flat else None,
                       "converter_model_output": mc[0][:300] if flat else None})
    ck.extra["rule"] = "%d generated valid programs (1-3 files, random source/reference split, 0-3 generator arguments, 1-2 generators); distinct by case text" % n
    ck.partial.append("the converter model (Request/Convert.v) is fed the implementation's own AST dump (harness/src/dump.rs), so a defect of the AST itself is C02/C03/C16's business; the check's own reading of the property "
                      "(vlib/checks/c08.py::Conv) is kept as a second oracle; the arguments, the operation name and the source/reference split are compared by the check")

