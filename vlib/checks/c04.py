"""C04: accepted <=> well-formed; codes belong to violated rules."""
import copy, random
from .. import core, slicegen
from ..slicegen import PRIMS, BOUNDS, prim, named
from ..front_common import hx, parse_diags

ALLOWED_AXIOMS = ()
COMPONENT = "validate"


class Enc:
    """program dict -> model line (resolved types, interned names)"""
    def __init__(self, prog):
        self.prog = prog
        self.defs = {}
        for f in prog["files"]:
            for d in f["defs"]:
                self.defs.setdefault(d["scoped"], d)
        self.ids, self.names = {}, {}

    def id(self, scoped):
        return self.ids.setdefault(scoped, len(self.ids) + 1)

    def name(self, s):
        return self.names.setdefault(s, len(self.names) + 1)

    def ty(self, t, seen=()):
        k = t["k"]
        if k == "prim":
            return "P %d" % PRIMS.index(t["name"])
        if k == "named":
            d = self.defs[t["id"]]
            if d["kind"] == "struct":
                return "S %d" % self.id(d["scoped"])
            if d["kind"] == "enum":
                return "E %d" % self.id(d["scoped"])
            if d["kind"] == "custom":
                return "C"
            if d["kind"] == "alias":
                return self.ty(d["type"], seen + (d["scoped"],))
            raise ValueError("interface used as type")
        if k == "seq":
            return "Q " + self.tyref(t["e"])
        if k == "dict":
            return "D %s %s" % (self.tyref(t["key"]), self.tyref(t["val"]))
        return "R %s %s" % (self.tyref(t["ok"]), self.tyref(t["err"]))

    def tyref(self, t):
        return "%d %s" % (1 if t.get("opt") else 0, self.ty(t))

    def member(self, m):
        return "%d %s %d %s" % (self.name(m["name"]), "-" if m["tag"] is None else str(m["tag"]), 1 if m.get("stream") else 0, self.tyref(m["type"]))

    def members(self, ms):
        return "%d %s" % (len(ms), " ".join(self.member(m) for m in ms))

    def line(self):
        out = []
        for f in self.prog["files"]:
            for d in f["defs"]:
                k = d["kind"]
                top = self.name("::" + d["scoped"])
                if k == "struct":
                    out.append("S %d %d %d %s" % (self.id(d["scoped"]) if self.defs[d["scoped"]] is d else 9000 + len(out), top, 1 if d["compact"] else 0, self.members(d["fields"])))
                elif k == "enum":
                    ens = []
                    prev = None
                    for e in d["enumerators"]:
                        v = e["value"] if e["value"] is not None else (0 if prev is None else prev + 1)
                        prev = v
                        ens.append("%d %d %s" % (self.name(e["name"]), v, "-" if e["fields"] is None else "+ " + self.members(e["fields"])))
                    under = "-" if not d["underlying"] else "%d:%d" % (PRIMS.index(d["underlying"]), 1 if d.get("underlying_opt") else 0)
                    out.append("E %d %d %d %d %s %d %s" % (self.id(d["scoped"]) if self.defs[d["scoped"]] is d else 9000 + len(out), top, 1 if d["compact"] else 0, 1 if d["unchecked"] else 0, under, len(ens), " ".join(ens)))
                elif k == "interface":
                    ops = []
                    for o in d["ops"]:
                        tup = 1 if (o.get("tuple") or len(o["returns"]) >= 2) else 0
                        rets = o["returns"]
                        ops.append("%d %d %s %s" % (self.name(o["name"]), tup, self.members(o["params"]), self.members(rets)))
                    out.append("I %d %d %d %s %d %s" % (self.id(d["scoped"]) if self.defs[d["scoped"]] is d else 9000 + len(out), top, len(d["bases"]), " ".join(str(self.id(b["id"])) for b in d["bases"]), len(ops), " ".join(ops)))
                elif k == "custom":
                    out.append("C %d" % top)
                else:
                    out.append("A %d %s" % (top, self.tyref(d["type"])))
        return "val %d %s" % (len(out), " ".join(out))


# ------------------------------------------------------------------------------------------------ violation catalogue
def all_member_lists(prog):
    for f in prog["files"]:
        for d in f["defs"]:
            if d["kind"] == "struct":
                yield d, d["fields"], "field"
            elif d["kind"] == "enum":
                for e in d["enumerators"]:
                    if e["fields"] is not None:
                        yield d, e["fields"], "efield"
            elif d["kind"] == "interface":
                for o in d["ops"]:
                    yield d, o["params"], "param"
                    yield d, o["returns"], "ret"


def defs_of(prog, kind):
    return [d for f in prog["files"] for d in f["defs"] if d["kind"] == kind]


def inject(rng, prog):
    """apply one violation from the catalogue (in place); returns its name or None if not applicable"""
    lists = [x for x in all_member_lists(prog)]
    structs, enums, ifaces, aliases = defs_of(prog, "struct"), defs_of(prog, "enum"), defs_of(prog, "interface"), defs_of(prog, "alias")
    choice = rng.choice(["dup_member", "dup_tag", "tag_nonopt", "tag_compact", "empty_compact", "enum_value_edge", "enum_dup_value", "under_bad", "under_opt",
                         "enum_empty", "fields_under", "compact_under", "compact_unchecked", "key_opt", "key_struct", "key_bad", "key_nested_bad", "stream_mid", "two_streams",
                         "shadow", "alias_opt", "tag_range", "tuple_small", "redef_top", "dup_enumerator", "dup_op", "tag_edge_ok", "enum_edge_ok"])
    try:
        if choice == "dup_member":
            d, ms, _ = rng.choice([x for x in lists if len(x[1]) >= 2]); ms[-1]["name"] = ms[0]["name"]
        elif choice == "dup_tag":
            d, ms, _ = rng.choice([x for x in lists if len(x[1]) >= 2 and not x[0].get("compact")])
            for m in (ms[0], ms[-1]):
                m["tag"] = 5; m["type"]["opt"] = True; m["stream"] = False
        elif choice == "tag_nonopt":
            d, ms, _ = rng.choice([x for x in lists if x[1] and not x[0].get("compact")]); m = rng.choice(ms); m["tag"] = 9; m["type"]["opt"] = False; m["stream"] = False
        elif choice == "tag_compact":
            d, ms, _ = rng.choice([x for x in lists if x[1] and x[0].get("compact")]); m = rng.choice(ms); m["tag"] = 3; m["type"]["opt"] = True
        elif choice == "empty_compact":
            d = rng.choice(structs); d["compact"] = True; d["fields"] = []
        elif choice in ("enum_value_edge", "enum_edge_ok"):
            d = rng.choice([e for e in enums if e["enumerators"]]); e = rng.choice(d["enumerators"])
            lo, hi = BOUNDS.get(d["underlying"], (0, 2**31 - 1)) if d["underlying"] else (0, 2**31 - 1)
            e["value"] = rng.choice([lo - 1, hi + 1] if choice == "enum_value_edge" else [lo, hi]); e["base"] = rng.choice(["dec", "hex"])
        elif choice == "enum_dup_value":
            d = rng.choice([e for e in enums if len(e["enumerators"]) >= 2]); d["enumerators"][-1]["value"] = d["enumerators"][0].get("actual", 0); d["enumerators"][0]["value"] = d["enumerators"][0].get("actual", 0)
        elif choice == "under_bad":
            d = rng.choice(enums); d["underlying"] = rng.choice(["float32", "float64", "bool", "string"]); d["compact"] = False
            for e in d["enumerators"]:
                e["fields"] = None
        elif choice == "under_opt":
            d = rng.choice([e for e in enums if e["underlying"]]); d["underlying_opt"] = True
        elif choice == "enum_empty":
            d = rng.choice(enums); d["enumerators"] = []; d["unchecked"] = False
        elif choice == "fields_under":
            d = rng.choice([e for e in enums if e["underlying"] and e["enumerators"]]); d["enumerators"][rng.randrange(len(d["enumerators"]))]["fields"] = rng.choice([[{"name": "zz", "tag": None, "attrs": [], "stream": False, "type": prim("int32")}], []])   # also an empty list: B()
        elif choice == "compact_under":
            d = rng.choice([e for e in enums if e["underlying"]]); d["compact"] = True; d["unchecked"] = False
        elif choice == "compact_unchecked":
            d = rng.choice(enums); d["compact"] = True; d["unchecked"] = True
        elif choice.startswith("key_"):
            d, ms, _ = rng.choice([x for x in lists if x[1]]); m = rng.choice(ms)
            if choice == "key_opt":
                key = prim("int32", True)
            elif choice == "key_struct":
                sk = rng.choice([x for x in structs if x is not d]); key = named(sk, spelling="::" + sk["scoped"])
            elif choice == "key_bad":
                key = rng.choice([prim("float32"), prim("float64"), {"k": "seq", "e": prim("int8"), "opt": False, "attrs": []},
                                  {"k": "dict", "key": prim("int8"), "val": prim("int8"), "opt": False, "attrs": []},
                                  {"k": "res", "ok": prim("int8"), "err": prim("int8"), "opt": False, "attrs": []}] + [named(e, spelling="::" + e["scoped"]) for e in enums])
            else:
                s = rng.choice([x for x in structs if x is not d]); s["compact"] = True
                s["fields"] = [{"name": "k0", "tag": None, "attrs": [], "stream": False, "type": prim("int32")}]
                s["fields"][0]["type"] = rng.choice([prim("float64"), prim("string", True), {"k": "seq", "e": prim("int8"), "opt": False, "attrs": []}, prim("uint8")])
                key = named(s, spelling="::" + s["scoped"])
            opt = m["type"].get("opt", False)
            m["type"] = {"k": rng.choice(["dict", "seqdict"]), "key": key, "val": prim("bool"), "opt": opt, "attrs": []}
            if m["type"]["k"] == "seqdict":
                m["type"] = {"k": "seq", "e": {"k": "dict", "key": key, "val": prim("bool"), "opt": False, "attrs": []}, "opt": opt, "attrs": []}
        elif choice == "stream_mid":
            d, ms, _ = rng.choice([x for x in lists if x[2] in ("param", "ret") and len(x[1]) >= 2]); ms[0]["stream"] = True; ms[0]["tag"] = None
        elif choice == "two_streams":
            d, ms, _ = rng.choice([x for x in lists if x[2] in ("param", "ret") and len(x[1]) >= 2])
            for m in (ms[0], ms[-1]):
                m["stream"] = True; m["tag"] = None
        elif choice == "shadow":
            d = rng.choice([i for i in ifaces if i["bases"] and i["ops"]])
            # any ancestor, direct or indirect (also through a diamond)
            anc, todo = [], [b["id"] for b in d["bases"]]
            while todo:
                x = next(i for i in ifaces if i["scoped"] == todo.pop())
                if x not in anc:
                    anc.append(x); todo += [b["id"] for b in x["bases"]]
            base = rng.choice([a for a in anc if a["ops"]])
            d["ops"][0]["name"] = rng.choice(base["ops"])["name"]
        elif choice == "alias_opt":
            d = rng.choice(aliases); d["type"]["opt"] = True
        elif choice in ("tag_range", "tag_edge_ok"):
            d, ms, _ = rng.choice([x for x in lists if x[1] and not x[0].get("compact")]); m = rng.choice(ms)
            m["tag"] = rng.choice([-1, 2**31, 2**32 + 1, 2**63, 2**64, 2**64 + 5, -(2**65) + 1, 2**96 + 7, -(2**31)] if choice == "tag_range" else [0, 2**31 - 1]); m["type"]["opt"] = True; m["stream"] = False
        elif choice == "tuple_small":
            d = rng.choice([i for i in ifaces if i["ops"]]); o = rng.choice(d["ops"]); o["returns"] = o["returns"][:rng.choice([0, 1])]; o["tuple"] = True
        elif choice == "redef_top":
            f = rng.choice(prog["files"]); d = copy.deepcopy(rng.choice(f["defs"])); g = rng.choice([x for x in prog["files"] if x["module"] == f["module"]]); g["defs"].append(d)
        elif choice == "dup_enumerator":
            d = rng.choice([e for e in enums if len(e["enumerators"]) >= 2]); d["enumerators"][-1]["name"] = d["enumerators"][0]["name"]
        elif choice == "dup_op":
            d = rng.choice([i for i in ifaces if len(i["ops"]) >= 2]); d["ops"][-1]["name"] = d["ops"][0]["name"]
        return choice
    except (IndexError, StopIteration):
        return None


def small_scope_families():
    """bounded-exhaustive: every tag/optional/compact assignment over <= 3 members; every stream placement over <= 3 parameters"""
    import itertools
    progs = []
    for n in (1, 2, 3):
        for compact in (False, True):
            for assign in itertools.product([(None, False), (None, True), (1, True), (1, False), (2, True)], repeat=n):
                fields = [{"name": "f%d" % i, "tag": t, "attrs": [], "stream": False, "type": prim("int32", o)} for i, (t, o) in enumerate(assign)]
                progs.append({"files": [{"path": "x", "module": "M", "defs": [{"kind": "struct", "name": "S", "scoped": "M::S", "module": "M", "compact": compact, "attrs": [], "fields": fields}]}]})
        for streams in itertools.product([False, True], repeat=n):
            for which in ("params", "returns"):
                ms = [{"name": "p%d" % i, "tag": None, "attrs": [], "stream": s, "type": prim("int32")} for i, s in enumerate(streams)]
                o = {"name": "op", "idempotent": False, "attrs": [], "params": ms if which == "params" else [], "returns": ms if which == "returns" else []}
                progs.append({"files": [{"path": "x", "module": "M", "defs": [{"kind": "interface", "name": "I", "scoped": "M::I", "module": "M", "attrs": [], "bases": [], "ops": [o]}]}]})
    # every key type up to nesting depth 2
    keys0 = [prim(p) for p in PRIMS] + [prim("int32", True)]
    cs = {"kind": "struct", "name": "K", "scoped": "M::K", "module": "M", "compact": True, "attrs": [], "fields": []}
    for inner in keys0 + [{"k": "seq", "e": prim("int8"), "opt": False, "attrs": []}]:
        for compact in (True, False):
            k = copy.deepcopy(cs); k["compact"] = compact
            k["fields"] = [{"name": "a", "tag": None, "attrs": [], "stream": False, "type": copy.deepcopy(inner)}]
            user = {"kind": "struct", "name": "U", "scoped": "M::U", "module": "M", "compact": False, "attrs": [],
                    "fields": [{"name": "d", "tag": None, "attrs": [], "stream": False, "type": {"k": "dict", "key": named(k), "val": prim("bool"), "opt": False, "attrs": []}}]}
            progs.append({"files": [{"path": "x", "module": "M", "defs": [k, user]}]})
    for key in keys0:
        user = {"kind": "struct", "name": "U", "scoped": "M::U", "module": "M", "compact": False, "attrs": [],
                "fields": [{"name": "d", "tag": None, "attrs": [], "stream": False, "type": {"k": "dict", "key": copy.deepcopy(key), "val": prim("bool"), "opt": False, "attrs": []}}]}
        progs.append({"files": [{"path": "x", "module": "M", "defs": [user]}]})
    # every primitive's min-1, min, max, max+1 as an enumerator value; and the default range
    for p in [None] + [q for q in PRIMS if q in BOUNDS]:
        lo, hi = BOUNDS[p] if p else (0, 2**31 - 1)
        for v in (lo - 1, lo, hi, hi + 1):
            for base in ("dec", "hex"):
                e = {"kind": "enum", "name": "E", "scoped": "M::E", "module": "M", "compact": False, "unchecked": False, "underlying": p, "attrs": [],
                     "enumerators": [{"name": "A", "attrs": [], "fields": None, "value": v, "base": base}]}
                progs.append({"files": [{"path": "x", "module": "M", "defs": [e]}]})
    # inherited operations: chains of length 1..3 and a diamond, the redeclared operation coming from every ancestor
    def iface(name, bases, ops):
        return {"kind": "interface", "name": name, "scoped": "M::" + name, "module": "M", "attrs": [],
                "bases": [{"k": "named", "id": "M::" + b, "kind": "interface", "text": b, "opt": False, "attrs": []} for b in bases],
                "ops": [{"name": o, "idempotent": False, "attrs": [], "params": [], "returns": []} for o in ops]}
    shapes = [[("A", [], ["a"]), ("B", ["A"], ["b"]), ("C", ["B"], ["c"]), ("D", ["C"], ["d"])],
              [("A", [], ["a"]), ("B", ["A"], ["b"]), ("C", ["A"], ["c"]), ("D", ["B", "C"], ["d"])]]
    for shape in shapes:
        for redeclare_in in range(1, 4):
            for take_from in range(0, redeclare_in):
                for split in (False, True):
                    ds = [iface(n, b, list(o)) for n, b, o in shape]
                    ds[redeclare_in]["ops"].append({"name": shape[take_from][2][0], "idempotent": False, "attrs": [], "params": [], "returns": []})
                    files = [{"path": "x", "module": "M", "defs": ds}] if not split else [{"path": "x", "module": "M", "defs": ds[:2]}, {"path": "y", "module": "M", "defs": ds[2:]}]
                    progs.append({"files": files})
    return progs


# ------------------------------------------------------------------------------------------------ attribute rules and the module rule
ATTR_POOL = [("deprecated", []), ("deprecated", ["use the other one"]), ("deprecated", ["a", "b"]), ("allow", ["All"]), ("allow", ["Deprecated", "BrokenDocLink"]), ("allow", []),
             ("allow", ["deprecated"]), ("allow", ["DuplicateFile"]), ("allow", ["Nope", "All"]), ("oneway", []), ("oneway", ["x"]), ("compress", ["Args"]), ("compress", ["Args", "Return"]),
             ("compress", []), ("compress", ["Zip"]), ("compress", ["Return", "return"]), ("slicedFormat", ["Return"]), ("slicedFormat", ["args"]), ("slicedFormat", []), ("nosuch", []),
             ("x::foreign", ["any thing", ""]), ("Deprecated", []), ("cs::attribute", []), ("allow", ["MalformedDocComment", "IncorrectDocComment"])]


def attribute_sites(prog):
    """every place of the program where an attribute can be written: (place, returns, the list to append to)"""
    sites = []

    def tref(t):
        sites.append(("TypeRef", False, t["attrs"]))
        for k in ("e", "key", "val", "ok", "err"):
            if k in t:
                tref(t[k])
    for f in prog["files"]:
        f.setdefault("fattrs", [])
        f.setdefault("mattrs", [])
        sites.append(("SliceFile", False, f["fattrs"]))
        sites.append(("Module", False, f["mattrs"]))
        for d in f["defs"]:
            k = d["kind"]
            sites.append(({"struct": "Struct", "enum": "Enum", "interface": "Interface", "custom": "CustomType", "alias": "TypeAlias"}[k], False, d["attrs"]))
            if k == "struct":
                for m in d["fields"]:
                    sites.append(("Field", False, m["attrs"]))
                    tref(m["type"])
            elif k == "enum":
                if d.get("underlying"):
                    sites.append(("TypeRef", False, d.setdefault("underlying_attrs", [])))      # the underlying type is a type reference like any other
                for e in d["enumerators"]:
                    sites.append(("Enumerator", False, e["attrs"]))
                    for m in e["fields"] or []:
                        sites.append(("Field", False, m["attrs"]))
                        tref(m["type"])
            elif k == "interface":
                for b in d["bases"]:
                    sites.append(("TypeRef", False, b["attrs"]))     # so is the reference to a base interface
                for o in d["ops"]:
                    sites.append(("Operation", len(o["returns"]) > 0, o["attrs"]))
                    for m in o["params"]:
                        sites.append(("Parameter", False, m["attrs"]))
                        tref(m["type"])
                    for m in o["returns"]:
                        if len(o["returns"]) != 1:
                            sites.append(("Parameter", False, m["attrs"]))     # a single return value is written without a member of its own
                        tref(m["type"])
            elif k == "alias":
                tref(d["type"])
    return sites


def attribute_stream(ck):
    import random
    from .. import slicegen
    rng = ck.rng
    n = 1500 if ck.tier == "quick" else 20000
    texts, mlines, fams, mlines_wo = [], [], [], []
    for i in range(n):
        prog = slicegen.Gen(random.Random(rng.randrange(1 << 60)), depth=2, foreign_attrs=False).program()
        sites = attribute_sites(prog)
        k = rng.choice([0, 1, 1, 1, 2, 2, 3, 5])
        chosen = []
        for _ in range(k):
            place, returns, lst = rng.choice(sites)
            if rng.random() < 0.5:     # aim: the places an attribute is made for
                want = {"Operation": ["oneway", "compress", "slicedFormat", "deprecated", "allow"], "SliceFile": ["allow", "deprecated"], "TypeRef": ["x::foreign", "allow", "deprecated"]}.get(place, ["deprecated", "allow"])
                cands = [a for a in ATTR_POOL if a[0] in want]
            else:
                cands = ATTR_POOL
            d, args = rng.choice(cands)
            lst.append((d, list(args)))
            r2 = rng.random()
            if r2 < 0.12:
                lst.append(rng.choice([(d, list(args)), rng.choice(cands)]))    # a repeat on the same element
            elif r2 < 0.24:
                # a repeat with something else in between: another non-repeatable attribute, a repeatable one, a foreign one
                between = rng.choice([("deprecated", []), ("oneway", []), ("compress", ["Args"]), ("slicedFormat", ["Args"]), ("allow", ["All"]), ("x::foreign", [])])
                lst.append(between)
                if rng.random() < 0.5:
                    lst.append(rng.choice([("allow", ["Deprecated"]), ("cs::attribute", ["x"])]))
                lst.append((d, list(args)))
            chosen.append(place + ":" + d)
        els = [(p, r, l) for p, r, l in attribute_sites(prog) if l]
        enc = lambda els_: "attrs %d %s" % (len(els_), " ".join("%s %d %d %s" % (p, 1 if r else 0, len(l), " ".join("%s %d %s" % (hx(d) if d else "-", len(a), " ".join(hx(x) if x else "-" for x in a)) for d, a in l)) for p, r, l in els_))
        mlines.append(enc(els))
        # the same program without what is written on underlying types and base references (used only to tell one known defect from others)
        special = [id(d.get("underlying_attrs")) for f in prog["files"] for d in f["defs"] if d["kind"] == "enum" and d.get("underlying_attrs")] + \
                  [id(b["attrs"]) for f in prog["files"] for d in f["defs"] if d["kind"] == "interface" for b in d["bases"] if b["attrs"]]
        mlines_wo.append(enc([(p, r, l) for p, r, l in els if id(l) not in special]) if special else None)
        texts.append(slicegen.render(prog))
        fams.append("+".join(sorted(set(chosen))) if len(chosen) <= 1 else "several")
    mlines = [" ".join(l.split()) for l in mlines]
    m = core.run_model("validate", mlines, chunk=2000)
    wo_idx = [i for i, l in enumerate(mlines_wo) if l]
    m_wo = dict(zip(wo_idx, core.run_model("validate", [" ".join(mlines_wo[i].split()) for i in wo_idx], chunk=2000)))
    o = core.run_impl("diags", ["diags - " + " ".join(hx(t) for t in ts) for ts in texts], chunk=300, timeout=120)
    ck.stream("attributes", description="well-formed generated programs with 0..5 attributes from a pool (the five built-in directives with right and wrong argument counts and arguments, wrong-case spellings, "
              "unknown directives with and without a scope prefix) written on randomly chosen elements of every kind (file, module, definitions, fields, enumerators, operations with and without return values, parameters, "
              "return members, type references at any depth, underlying types of enums, references to base interfaces), some repeated on the same element; observable: the attribute error codes (E023-E028) against the model (the same codes, each at least as often), and no other error")
    seen = {}
    for ci, (ts, ml, fam, mo, oo) in enumerate(zip(texts, mlines, fams, m, o)):
        ck.count("attributes", ml, kind=fam if fam.count(":") <= 1 and len(fam) < 40 else "several")
        dl = parse_diags(oo)
        if dl is None:
            ck.violation("attributes", "crash", "\n--\n".join(ts), mo, oo[:200], signature={"observable": oo.split(" ")[0]})
            continue
        errs = sorted(d["code"] for d in dl if d["level"] == "Error")
        exp = sorted(mo.split(" ")) if mo != "ok" else []
        seen[bool(exp)] = seen.get(bool(exp), 0) + 1
        # the same defect may be reported once per use (an attribute on an alias's type is reported at every reference to the alias):
        # the codes must be the model's, each at least as often as the model reports it
        # ... and a reference to an alias carries the alias's type attributes after its own: a directive written once on each is then seen twice
        # (E026) -- only where the attribute is misplaced anyway, so the program is rejected either way
        through_alias = bool(exp) and any("typealias" in l and "= [" in l for t in ts for l in t.split("\n"))
        errs_cmp = [c for c in errs if not (through_alias and c == "E026" and "E026" not in exp)]
        if set(exp) != set(errs_cmp) or any(errs_cmp.count(c) < exp.count(c) for c in set(exp)):
            fam2 = "ill-formed-attribute-accepted" if exp and not errs else ("legal-attribute-rejected" if errs and not exp else "attribute-codes-differ")
            if ci in m_wo:
                # what is observed lies between the model's verdict without the attributes written on underlying types and base references and its verdict
                # with them: those attributes were parsed (argument errors are reported) but not validated (placement, repeats) -- one defect, told apart from any other
                low = sorted(m_wo[ci].split(" ")) if m_wo[ci] != "ok" else []
                if set(low) <= set(errs) <= set(exp) and all(errs.count(c) >= low.count(c) for c in set(low)):
                    fam2 = "attribute-on-underlying-type-or-base-reference-not-validated"
            ck.violation("attributes", fam2, "\n--\n".join(ts), " ".join(exp) or "accepted", " ".join(errs) or "accepted", signature={"expected": " ".join(sorted(set(exp))), "observed": " ".join(sorted(set(errs)))}, detail=ml[:300])
    if seen.get(True, 0) < n // 10 or seen.get(False, 0) < n // 10:
        ck.violation("attributes", "generator-vacuous", repr(seen), "both accepted and rejected programs in quantity", repr(seen), kind="correspondence")
    ck.samples.append({"stream": "attributes", "case": texts[-1], "model_input": mlines[-1][:300], "model": m[-1], "impl": o[-1][:200]})

    # the module rule: a file's definitions need a module declaration, and it comes first
    cases = []
    for i in range(120 if ck.tier == "quick" else 1200):
        prog = slicegen.Gen(random.Random(rng.randrange(1 << 60)), nfiles=1, depth=2, foreign_attrs=False).program()
        text = slicegen.render(prog)[0]
        lines_ = text.split("\n")
        mi = next(j for j, l in enumerate(lines_) if l.startswith("module ") or " module " in l)
        body = lines_[:mi] + lines_[mi + 1:]
        how = rng.choice(["as-written", "no-module", "module-last", "module-after-first-definition", "module-twice", "comment-before-module"])
        if how == "as-written":
            t, ok = text, True
        elif how == "no-module":
            t, ok = "\n".join(body), False
        elif how == "module-last":
            t, ok = "\n".join(body + [lines_[mi]]) + "\n", False
        elif how == "module-after-first-definition":
            t, ok = "struct Early%d {}\n" % i + text, False
        elif how == "module-twice":
            t, ok = text + lines_[mi] + "\nstruct Late%d {}\n" % i, False
        else:
            t, ok = "// a comment\n\n" + text, True
        cases.append((t, ok, how))
    o2 = core.run_impl("diags", ["diags - " + hx(t) for t, _, _ in cases], chunk=200, timeout=120)
    ck.stream("module-rule", description="single-file programs as written, without their module declaration, with it after the definitions, after a first definition, or written twice; observable: accepted, or rejected with a syntax error")
    for (t, ok, how), oo in zip(cases, o2):
        ck.count("module-rule", t, kind=how)
        dl = parse_diags(oo)
        if dl is None:
            ck.violation("module-rule", "crash", t, "a verdict", oo[:200])
            continue
        errs = sorted({d["code"] for d in dl if d["level"] == "Error"})
        if ok and errs:
            ck.violation("module-rule", "well-formed-rejected", t, "accepted", " ".join(errs), signature={"how": how})
        elif not ok and errs != ["E002"]:
            ck.violation("module-rule", "module-rule-not-enforced", t, "rejected with a syntax error (E002)", " ".join(errs) or "accepted", signature={"how": how})


def inherited_stream(ck):
    """operations inherited through bases that share a simple name (in different modules, in different files), directly and through intermediate
    interfaces and diamonds: redeclaring an inherited operation is E011, anything else is accepted"""
    import itertools
    cases = []
    for shape, redecl, order, spelling in itertools.product(("direct", "through-mid", "both-through-mids", "diamond"), ("opA", "opB", "opC", "opMid", "none", "opA+opB"), (0, 1), ("scoped", "global")):
        q = (lambda m, n: "::%s::%s" % (m, n)) if spelling == "global" else (lambda m, n: "%s::%s" % (m, n))
        fa = "module A\ninterface Base { opA() }\n"
        fb = "module B\ninterface Base { opB() }\n"
        fc = "module C\ninterface Base { opC() }\ninterface Other { opOther() }\n"
        body = " ".join("%s()" % r for r in redecl.split("+")) if redecl != "none" else ""
        if shape == "direct":
            bases, mids, inherited = [q("A", "Base"), q("B", "Base")], "", {"opA", "opB"}
        elif shape == "through-mid":
            mids, inherited = "module M\ninterface Mid : %s { opMid() }\n" % q("B", "Base"), {"opA", "opB", "opMid"}
            bases = [q("A", "Base"), q("M", "Mid")]
        elif shape == "both-through-mids":
            mids = "module M\ninterface Mid : %s { opMid() }\n" % q("A", "Base")
            fb2 = "module N\ninterface Mid : %s { opMid2() }\n" % q("B", "Base")
            bases, inherited = [q("M", "Mid"), q("N", "Mid")], {"opA", "opB", "opMid", "opMid2"}
            mids = mids + "\x00" + fb2
        else:
            mids = "module M\ninterface Left : %s, %s {}\ninterface Right : %s, %s {}\n" % (q("A", "Base"), q("C", "Base"), q("C", "Base"), q("B", "Base"))
            bases, inherited = [q("M", "Left"), q("M", "Right")], {"opA", "opB", "opC"}
        if order:
            bases = bases[::-1]
        fd = "module D\ninterface I : %s { %s }\n" % (", ".join(bases), body)
        files = [fa, fb, fc] + [x for x in mids.split("\x00") if x] + [fd]
        if order:
            files = files[::-1]
        want = sorted(r for r in redecl.split("+") if r in inherited)
        cases.append((files, want, "%s:%s" % (shape, redecl)))
    o = core.run_impl("diags", ["diags - " + " ".join(hx(t) for t in fs) for fs, _, _ in cases], chunk=100, timeout=120)
    ck.stream("inherited-through-same-named-bases", description="an interface with two bases of one simple name in different modules and files (directly, through an intermediate interface, through two intermediates of one name, "
              "through a diamond), the files in both orders, the bases written scoped or globally: redeclaring an operation of either base (or of an intermediate) is E011 for that operation, anything else is accepted")
    for (fs, want, fam), oo in zip(cases, o):
        case = "\n-- next file --\n".join(fs)
        ck.count("inherited-through-same-named-bases", case, kind=fam)
        dl = parse_diags(oo)
        if dl is None:
            ck.violation("inherited-through-same-named-bases", "crash", case, "diagnostics", oo[:200])
            continue
        errs = [d for d in dl if d["level"] == "Error"]
        got = sorted(d["msg"].split("'")[1] for d in errs if d["code"] == "E011" and "'" in d["msg"])
        if got != want or any(d["code"] != "E011" for d in errs):
            ck.violation("inherited-through-same-named-bases", "redeclaration-accepted" if len(got) < len(want) else "inheritance-verdict-differs", case, "E011 for %s" % want if want else "accepted",
                         " ".join("%s %s" % (d["code"], d["msg"]) for d in errs) or "accepted", signature={"shape": fam.split(":")[0]})


def run(ck):
    inherited_stream(ck)
    rng = ck.rng
    n = 5000 if ck.tier == "quick" else 60000
    cases = []   # (prog, family)
    for p in small_scope_families():
        cases.append((p, "small-scope"))
    for _ in range(n):
        prog = slicegen.Gen(random.Random(rng.randrange(1 << 60)), depth=2, foreign_attrs=False).program()
        r = rng.random()
        if r < 0.25:
            cases.append((prog, "well-formed"))
            continue
        k = rng.choice([1, 1, 1, 2, 3])
        names = []
        for _ in range(k):
            nm = inject(rng, prog)
            if nm:
                names.append(nm)
        cases.append((prog, "+".join(sorted(set(names))) if names else "well-formed"))
    mlines, texts, keep = [], [], []
    for prog, fam in cases:
        try:
            mlines.append(Enc(prog).line())
            texts.append(slicegen.render(prog))
            keep.append((prog, fam))
        except (KeyError, ValueError):
            continue
    m = core.run_model("validate", mlines, chunk=2000)
    o = core.run_impl("diags", ["diags - " + " ".join(hx(t) for t in ts) for ts in texts], chunk=300, timeout=120)
    ck.stream("rules", description="well-formed generated programs and the same with 1..3 injected violations from the rule catalogue at boundary values, plus bounded-exhaustive small-scope families; observable: the set of error codes")
    for (prog, fam), ml, ts, mo, oo in zip(keep, mlines, texts, m, o):
        ck.count("rules", ml, kind=fam if fam.count("+") == 0 else "multi")
        dl = parse_diags(oo)
        if dl is None:
            ck.violation("rules", "crash", "\n--\n".join(ts), mo, oo[:200], signature={"observable": oo.split(" ")[0]})
            continue
        obs = sorted({d["code"] for d in dl if d["level"] == "Error"})
        if set(obs) & {"E032", "E033", "E017", "E019"}:
            # several injected violations can combine into a containment cycle or an unresolved name: outside the rule model (C03/C05)
            st = ck.stream("rules"); st["out_of_domain"] = st.get("out_of_domain", 0) + 1
            continue
        exp = sorted(set(mo.split(" "))) if mo != "ok" else []
        if exp != obs:
            if not exp:
                famv = "well-formed-rejected"
            elif not obs:
                famv = "ill-formed-accepted"
            else:
                famv = "codes-differ"
            ck.violation("rules", famv, "\n--\n".join(ts), " ".join(exp) or "accepted", " ".join(obs) or "accepted", signature={"expected": " ".join(exp), "observed": " ".join(obs)}, detail=fam)
    ck.samples.append({"stream": "rules", "case": texts[-1], "model_input": mlines[-1][:300], "model": m[-1], "impl": o[-1][:200]})
    ck.extra["exhaustive"] = True
    ck.extra["rule"] = ("bounded-exhaustive small-scope families (every tag/optional/compact assignment over <= 3 members, every stream placement over <= 3 parameters/returns, every primitive and compact-struct key to depth 2, "
                        "every primitive's min-1/min/max/max+1 enumerator value in two bases) + %d generated programs, 75%% with 1..3 injected violations out of 28 kinds. Distinct by model input." % n)
    attribute_stream(ck)
    ck.partial.append("the attribute rules have a model of their own (Sema/Attributes.v, table regenerated from grammar/attributes/*.rs) and are exercised on otherwise well-formed programs; the module rule is exercised against the "
                      "property's own reading (the parser model of C02 states it); literal syntax (E030/E031) is C02's; type resolution and cycles are C03/C05")
