"""C07: code generation happens only after an error-free compilation."""
from .. import core, driver_common as dc

ALLOWED_AXIOMS = ()
NEEDS_SLICEC = True
COMPONENT = "main"
CLEAN = "module M\nstruct S%d { a: int32 }\n"
WARN = ["module M\n[deprecated] struct Old%d {}\nstruct Use%d { a: Old%d }\n", "module M\n/// {@link Nope}\nstruct D%d {}\n", "module M\n/// @param x: y\nstruct P%d {}\n"]
ERRORS = {
    "syntax": "module M\nstruct S%d { a: }\n",
    "unknown-attribute": "module M\n[nosuchattribute] struct S%d {}\n",
    "unresolved-type": "module M\nstruct S%d { a: Nope }\n",
    "cycle": "module M\nstruct S%d { a: S%d }\n",
    # every error of every phase, in its less usual forms: cycles through optional, sequence and dictionary types and through enumerators, alias and inheritance loops
    "cycle-optional": "module M\nstruct S%d { v: int32, next: S%d? }\n",
    "cycle-sequence-of-optional": "module M\nstruct A%d { bs: Sequence<B%d?> }\nstruct B%d { a: A%d? }\n",
    "cycle-dictionary-value": "module M\nstruct S%d { m: Dictionary<string, S%d?> }\n",
    "cycle-enumerator": "module M\nunchecked enum E%d { A(e: E%d?) }\n",
    "alias-loop": "module M\ntypealias A%d = B%d\ntypealias B%d = A%d\n",
    "inheritance-loop": "module M\ninterface I%d : J%d {}\ninterface J%d : I%d {}\n",
    "unresolved-base": "module M\ninterface I%d : Nope {}\n",
    "duplicate-enumerator-value": "module M\nenum E%d : uint8 { A = 1, B = 1 }\n",
    "dictionary-key": "module M\nstruct S%d { d: Dictionary<float32, bool> }\n",
    "returns-key-in-sequence": "module M\ninterface I%d { op() -> Sequence<Dictionary<float64, bool>> }\n",
    "shadowed-operation": "module M\ninterface B%d { op() }\ninterface D%d : B%d { op() }\n",
    "attribute-arguments": "module M\n[compress(Nope)] interface I%d { [compress(Nope)] op() }\n",
    "bad-allow": "module M\n[allow(NoSuchLint)] struct S%d {}\n",
    "redefinition": "module M\nstruct S%d {}\nstruct S%d {}\n",
    "rule": "module M\nstruct S%d { tag(1) a: int32 }\n",
    "preprocessor": "#if\nmodule M\nstruct S%d {}\n",
    "no-module": "struct S%d {}\n",
}


def fill(t, i):
    return t.replace("%d", str(i))


def run(ck):
    rng = ck.rng
    n = 500 if ck.tier == "quick" else 5000
    lines, metas = [], []
    for i in range(n):
        kind = rng.choice(["clean", "clean", "warn", "warn", "error", "error", "error", "io", "empty"])
        nfiles = rng.choice([1, 2, 3])
        files, nerr, nwarn = [], 0, 0
        bad = rng.randrange(nfiles)
        what = kind
        for j in range(nfiles):
            role = "S" if j == 0 or rng.random() < 0.6 else "R"
            if j == bad and kind == "warn":
                t = fill(rng.choice(WARN), j)
            elif j == bad and kind == "error":
                what = rng.choice(sorted(ERRORS))
                t = fill(ERRORS[what], j)
            elif j == bad and kind == "empty":
                t = rng.choice(["", "\n", "// nothing here\n", "module Empty%d\n" % j])
            else:
                t = fill(CLEAN, j)
            # suppressions written in the file itself (file level, all or one lint): they silence lints, never an error
            if t.lstrip().startswith(("module", "[", "//", "#")) and rng.random() < 0.3:
                t = rng.choice(["[[allow(All)]]\n", "[[allow(All)]]\n", "[[allow(Deprecated)]]\n", "[[allow(BrokenDocLink, IncorrectDocComment)]]\n", "[[allow(All)]] [[x::y]]\n"]) + t
            files.append((role, "f%d.slice" % j, t))
        extra = ["--diagnostic-format", "json"]
        if kind == "io":
            what = rng.choice(["missing-file", "not-slice", "directory-as-source", "path-through-a-file", "symlink-loop", "dangling-symlink", "not-utf8", "not-utf8"])
            if what == "missing-file":
                extra.append(rng.choice(["nope.slice", "sub/nope.slice"]))
            elif what == "not-utf8":
                # a file that is not valid UTF-8 (the stray byte sits in a comment, a doc comment, a string argument or an identifier) cannot be read as text
                bad = rng.choice([b"module Bytes\n// caf\xe9\nstruct B {}\n", b"module Bytes\n/// r\xe9sum\xe9\nstruct B {}\n", b"module Bytes\n[x::a(\"\xff\")] struct B {}\n",
                                  b"// \xc3\nmodule Bytes\n", b"module Bytes\nstruct B\xe9 {}\n", b"\xfe\xff\x00m"])
                files.append((rng.choice("SR"), "bytes%d.slice" % i, bad))
            elif what == "path-through-a-file":
                # a path whose parent is a regular file: it cannot be examined, which is an error like any other unreadable input
                extra += rng.choice([[], ["-R"]]) + ["f0.slice/inner.slice"]
            elif what == "symlink-loop":
                files.append(("L", "loop.slice", "loop.slice"))
                extra += rng.choice([[], ["-R"]]) + ["loop.slice"]
            elif what == "dangling-symlink":
                files.append(("L", "dangling.slice", "nowhere.slice"))
                extra += rng.choice([[], ["-R"]]) + ["dangling.slice"]
            elif what == "not-slice":
                files.append(("X", "notes.txt", "module M\n"))
                extra.append("notes.txt")
            else:
                files.append(("D", "adir", ""))
                extra.append("adir")
        allow = rng.choice([[], [], ["-A", "All"], ["-A", "Deprecated"], ["--allow", "BrokenDocLink", "-A", "IncorrectDocComment"]])
        extra += allow
        outdir = rng.random() < 0.4
        if outdir:
            files.append(("D", "out", ""))
            extra += ["-O", "out"]
        dry = rng.random() < 0.35
        ng = rng.choice([0, 1, 1, 2, 3])
        gens, gfail = [], []
        for g in range(ng):
            reply = dc.enc_reply([("gen%d_%d.txt" % (g, k), "content %d" % k) for k in range(rng.choice([0, 1, 2]))])
            how = rng.choice(["reply", "reply", "reply", "reply", "exit1", "missing", "stderr", "sigkill", "sigsegv", "exit255", "cut", "cut"])
            if how == "cut":
                # a reply that ends before it is complete (right after the list of files, inside a file, after one byte): the generator failed
                reply = rng.choice([reply[:-1], reply[:-1], reply[:max(1, len(reply) // 2)], reply[:1]])
            gens.append(("gen-%s-%d" % ("reply" if how == "cut" else how, g), rng.choice([None, "k=v"]), reply if how in ("reply", "cut") else None))
            gfail.append(how)
        if kind in ("clean", "error", "warn") and rng.random() < 0.25:
            # the same source listed twice: a DuplicateFile warning from file resolution, before anything is parsed
            files.append(("S", files[0][1], files[0][2]))
            dup = True
        else:
            dup = False
        lines.append(dc.run_line(dry, extra, gens, files))
        has_err = kind in ("error", "io")
        metas.append({"kind": kind, "what": what + ("+duplicate-file" if dup else ""), "has_err": has_err, "dry": dry, "gens": gens, "gfail": gfail, "outdir": outdir, "files": files, "allow": allow, "dup": dup})
    o = dc.run_all(lines)
    ck.stream("driver", description="the real slicec binary in a scratch directory: programs that are clean / warnings only (deprecated use, broken link, misplaced tag) / one error of each phase "
              "(missing file, non-.slice source, directory as source, preprocessor, syntax, file without module, unknown attribute, unresolved type or base, cycles through plain, optional, sequence, dictionary and enumerator fields, alias and inheritance loops, redefinition, rule violations of several validators, attribute arguments) in any one of 1-3 files "
              "(sources and references) x 0..3 generators (reply-writing, or failing: a reply that ends early, exit 1, exit 255, killed by a signal, missing executable, stderr output) x suppressions written in the files themselves ([[allow(All)]] and others) x the same source listed twice (DuplicateFile warning) x --dry-run x -A lists x output directory. Compared with the driver model: which generators were started, which files appeared, the exit status, "
              "the number of error diagnostics on stderr (JSON).")
    mlines = []
    for md in metas:
        beh = {"reply": lambda r: "run:1:0:0:%s" % r.hex(), "cut": lambda r: "run:1:0:0:%s" % (r.hex() or "-"), "exit1": lambda r: "run:1:0:1:-", "exit255": lambda r: "run:1:0:1:-", "sigkill": lambda r: "run:1:0:1:-", "sigsegv": lambda r: "run:1:0:1:-", "missing": lambda r: "missing", "stderr": lambda r: "run:1:1:0:0000"}
        mlines.append("main %s %d G %s FS" % ("E" if md["has_err"] else ("L" if md["kind"] == "warn" or md["dup"] else "-"), 1 if md["dry"] else 0,
                                              " ".join(beh[h](r) for (_, _, r), h in zip(md["gens"], md["gfail"]))))
    m = core.run_model("main", mlines)
    for md, line, oo, mo in zip(metas, lines, o, m):
        case = "%s%s generators=%d %s\n%s" % ("--dry-run " if md["dry"] else "", " ".join(md["allow"]), len(md["gens"]), "-O out" if md["outdir"] else "",
                                             "\n--\n".join("[%s %s]\n%s" % f for f in md["files"]))
        ck.count("driver", line, kind=md["what"])
        r = dc.parse_run(oo)
        if r is None:
            ck.violation("driver", "crash", case, "a run", oo[:300])
            continue
        if r["exit"] not in ("0", "1"):
            ck.violation("driver", "abnormal-exit", case, "exit status 0 or 1", "exit=%s %s" % (r["exit"], r["stderr"][-300:].decode("utf-8", "replace")), signature={"what": md["what"]})
            continue
        runs = mo.split(" ")[0] == "runs=1"
        want_exit = mo.split(" ")[1][5:]
        started = [g for g, (inv, _) in r["gens"].items() if inv > 0]
        startable = [g for (g, _, _), h in zip(md["gens"], md["gfail"]) if h != "missing"]
        if runs and sorted(started) != sorted(startable) or any(r["gens"][g][0] > 1 for g in started):
            ck.violation("driver", "generator-not-started", case, "every generator started once", str(r["gens"])[:200], signature={"what": md["what"]})
        if not runs and started:
            ck.violation("driver", "generator-started-dry-run" if md["dry"] and not md["has_err"] else "generator-started-despite-errors", case, "no generator is started", "started: %s" % started,
                         signature={"what": md["what"], "dry": md["dry"]})
        if r["exit"] != want_exit:
            ck.violation("driver", "exit-status", case, "exit status %s" % want_exit, "exit=%s; %s" % (r["exit"], r["stderr"][-300:].decode("utf-8", "replace")), signature={"what": md["what"]})
        # files: exactly the sources plus, when generation runs, every file of every reply (below the output directory)
        gen_files = {}
        if runs:
            for (g, _, reply), how_ in zip(md["gens"], md["gfail"]):
                if reply is None or how_ == "cut":      # files are written only from a reply that was decoded whole
                    continue
                k = 0
                while ("gen%s_%d.txt" % (g.split("-")[-1], k)).encode() in reply:
                    gen_files[("out/" if md["outdir"] else "") + "gen%s_%d.txt" % (g.split("-")[-1], k)] = ("content %d" % k).encode()
                    k += 1
        have = {p: c[0] for p, c in r["files"].items() if not p.endswith(".slice") and p != "notes.txt"}
        if have != gen_files:
            ck.violation("driver", "files-written", case, "generated files %s" % sorted(gen_files), "%s" % sorted(have), signature={"what": md["what"]})
        errs = [d for d in dc.json_diags(r["stderr"]) if d.get("severity") == "error"]
        if (len(errs) > 0) != (want_exit == "1"):
            ck.violation("driver", "exit-vs-errors", case, "non-zero exit exactly when an error diagnostic was emitted", "exit=%s, %d error diagnostics" % (r["exit"], len(errs)))
    ck.samples.append({"stream": "driver", "case": lines[0][:300], "impl": o[0][:300], "model": m[0][:200]})
    ck.extra["rule"] = "%d random configurations; distinct by case text" % n
