"""C03: type references bind to the designated entity."""
import itertools
from .. import core
from ..front_common import hx, split_dump, find_all, child

ALLOWED_AXIOMS = ()
COMPONENT = "resolve"
MODULES = [["A"], ["A", "B"], ["A", "B", "C"], ["B"], ["D"]]
NAMES = ["X", "Y", "B", "C", "Z"]
PRIMS = ["int32", "string", "bool"]


class Interner:
    def __init__(self):
        self.ids = {}

    def __call__(self, s):
        return self.ids.setdefault(s, len(self.ids) + 1)

    def segs(self, l):
        return ".".join(str(self(x)) for x in l) if l else "-"


FORMS = ["seq", "seq", "dictv", "res1", "res2"]


def render_ty(t):
    if t[0] == "prim":
        return t[1]
    if t[0] == "ref":
        own = "".join("[x::a%d] " % a for a in (t[3] if len(t) > 3 else ()))
        return own + ("::" if t[1] else "") + "::".join(t[2])
    # an anonymous type around the reference that is resolved: a sequence, a dictionary's value, either side of a result
    return {"seq": "Sequence<%s>", "dictv": "Dictionary<string, %s>", "res1": "Result<%s, bool>", "res2": "Result<int32, %s>"}[t[2] if len(t) > 2 else "seq"] % render_ty(t[1])


def render(files):
    texts = []
    for f in files:
        out = ["module " + "::".join(f["module"])]
        for d in f["defs"]:
            k = d[0]
            if k == "struct":
                out.append("struct %s { %s }" % (d[1], ", ".join("%s: %s" % (n, render_ty(t)) for n, t in d[2])))
            elif k == "enum":
                out.append("unchecked enum %s%s { }" % (d[1], (" : " + render_ty(d[2])) if d[2] else ""))
            elif k == "iface":
                ops = " ".join("%s(%s)%s" % (o, ", ".join("%s: %s" % (n, render_ty(t)) for n, t in ps),
                                               (" -> (%s)" % ", ".join("%s: %s" % (n, render_ty(t)) for n, t in rs)) if len(rs) >= 2 else ((" -> " + render_ty(rs[0][1])) if rs else "")) for o, ps, rs in d[3])
                out.append("interface %s%s { %s }" % (d[1], (" : " + ", ".join(render_ty(b) for b in d[2])) if d[2] else "", ops))
            elif k == "custom":
                out.append("custom %s" % d[1])
            elif k == "alias":
                out.append("typealias %s = %s%s" % (d[1], "".join("[x::a%d] " % a for a in d[3]), render_ty(d[2])))
        texts.append("\n".join(out) + "\n")
    return texts


def build(files):
    """-> (model line, queries meta, id -> description).  Table in the order Ast::add_named_element sees the elements."""
    I = Interner()
    entries, queries, desc = [], [], {}
    nid = [100]

    def add(key, kind, ms, under="-", what=None):
        nid[0] += 1
        entries.append("%s;%s;%d;%s;%s" % (I.segs(key), kind, nid[0], I.segs(ms), under))
        desc[nid[0]] = what
        return nid[0]

    def under_of(t, attrs, mod):
        if t[0] == "ref":
            attrs = list(attrs) + (list(t[3]) if len(t) > 3 else [])
            return "n:%d:%s:%s:%s" % (1 if t[1] else 0, I.segs(t[2]), ".".join(str(a) for a in attrs) or "-", I.segs(mod))
        nid[0] += 1
        desc[nid[0]] = ("prim", t[1]) if t[0] == "prim" else ({"seq": "seq", "dictv": "dict", "res1": "res", "res2": "res"}[t[2] if len(t) > 2 else "seq"],)
        return "a:%d:%s:%s" % (nid[0], "prim" if t[0] == "prim" else "anon", ".".join(str(a) for a in attrs) or "-")

    def q(x, mod, t, own_attrs=(), group=None):
        """a reference position; for Sequence<ref> the inner reference is the one that is resolved"""
        inner = []
        while t[0] == "seq":
            inner.append(t[2] if len(t) > 2 else "seq")
            t = t[1]
        if t[0] == "prim":
            queries.append(None)
            return
        own = list(own_attrs) if not inner else []
        if len(t) > 3:
            own = own + list(t[3])
        queries.append({"q": "%s;%s;%d;%s" % (x, I.segs(mod), 1 if t[1] else 0, I.segs(t[2])), "own": own, "inner": inner, "group": group})

    for f in files:
        mod = f["module"]
        for d in f["defs"]:
            k, name = d[0], d[1]
            key = mod + [name]
            if k == "struct":
                for n, t in d[2]:
                    add(key + [n], "field", mod, what=("field",))
                    q("T", mod, t)
                add(key, "struct", key, what=("named", "struct", "::".join(key)))
            elif k == "enum":
                if d[2]:
                    q("P", mod, d[2])
                add(key, "enum", key, what=("named", "enum", "::".join(key)))
            elif k == "iface":
                for b in d[2]:
                    q("I", mod, b, group=(id(f), name))
                for o, ps, rs in d[3]:
                    for n, t in ps:
                        add(key + [o, n], "param", mod, what=("param",)); q("T", mod, t)
                    for n, t in rs:
                        add(key + [o, n if len(rs) >= 2 else "returnValue"], "param", mod, what=("param",)); q("T", mod, t)
                for o, ps, rs in d[3]:
                    add(key + [o], "op", mod, what=("op",))
                add(key, "iface", key, what=("named", "interface", "::".join(key)))
            elif k == "custom":
                add(key, "custom", key, what=("named", "custom", "::".join(key)))
            elif k == "alias":
                q("T", mod, d[2], own_attrs=d[3])  # the alias's own type: its attributes come first, then the chain's
                add(key, "alias", key, under_of(d[2], d[3], mod), what=("alias",))
        add(mod, "module", mod, what=("module",))
    line = "res " + " ".join(entries) + " # " + " ".join(x["q"] for x in queries if x)
    return line, queries, desc


def positions(file_sx):
    """type-reference positions of a dumped file in the traversal order of build(): the innermost named reference of each."""
    out = []

    def ref(tr):
        return tr
    for d in child(file_sx, "defs")[1:]:
        k = d[0]
        if k == "struct":
            for f in child(d, "fields")[1:]:
                out.append(ref(f[-1]))
        elif k == "enum":
            u = child(d, "under")
            if u[1] != "-":
                out.append(["tr", u[1], u[2], u[3], u[4]])
        elif k == "interface":
            for b in child(d, "bases")[1:]:
                out.append(["tr", b[1], "0", b[2], b[3]])
            for o in child(d, "ops")[1:]:
                for p in child(o, "params")[1:] + child(o, "rets")[1:]:
                    out.append(ref(p[-1]))
        elif k == "alias":
            out.append(ref(d[-1]))
    return out


def observed_of(tr):
    tgt = tr[4]
    attrs = [a[1] for a in tr[3][1:]]
    if tgt[0] == "unpatched":
        return ("unpatched",), attrs, tgt[2] if len(tgt) > 2 else None
    if tgt[0] == "named":
        return ("named", tgt[1], tgt[2]), attrs, None
    if tgt[0] == "prim":
        return ("prim", tgt[1]), attrs, None
    return (tgt[0],), attrs, None


def gen_program(rng, small):
    nfiles = rng.choice([1, 2, 2, 3]) if not small else rng.choice([1, 2])
    files = []
    for _ in range(nfiles):
        mod = rng.choice(MODULES)
        defs, used = [], set()
        for _ in range(rng.randrange(1, 5)):
            name = rng.choice(NAMES)
            if name in used:
                continue
            used.add(name)

            def ref():
                spelling = rng.random()
                target_mod = rng.choice(MODULES + [mod])
                nm = rng.choice(NAMES)
                full = target_mod + [nm]
                own = tuple(rng.randrange(1, 9) for _ in range(rng.choice([0, 0, 0, 1, 2])))
                if spelling < 0.35:
                    return ("ref", False, [nm], own)
                if spelling < 0.55:
                    return ("ref", False, full[-2:])
                if spelling < 0.7:
                    return ("ref", False, full)
                if spelling < 0.85:
                    return ("ref", True, full)
                if spelling < 0.9:
                    return ("ref", True, [nm])
                if spelling < 0.95:
                    return ("ref", False, [nm, "f0"])      # a member
                return ("ref", False, target_mod)           # a module

            def ty():
                r = rng.random()
                if r < 0.15:
                    return ("prim", rng.choice(PRIMS))
                if r < 0.3:
                    return ("seq", ref(), rng.choice(FORMS))
                return ref()
            k = rng.choice(["struct", "struct", "alias", "alias", "alias", "iface", "enum", "custom"])
            if k == "struct":
                defs.append(("struct", name, [("f%d" % i, ty()) for i in range(rng.randrange(0, 3))]))
            elif k == "alias":
                defs.append(("alias", name, ty(), [rng.randrange(1, 9) for _ in range(rng.choice([0, 1, 1, 2]))]))
            elif k == "iface":
                ops = []
                for i in range(rng.randrange(0, 2)):
                    rs = [("r%d" % j, ty()) for j in range(rng.choice([0, 1, 2]))]
                    ops.append(("op%d" % i, [("p%d" % j, ty()) for j in range(rng.randrange(0, 2))], rs))
                defs.append(("iface", name, [ref() for _ in range(rng.choice([0, 0, 1, 2]))], ops))
            elif k == "enum":
                defs.append(("enum", name, rng.choice([None, ("prim", "uint8"), ref()])))
            else:
                defs.append(("custom", name))
        files.append({"module": mod, "defs": defs})
    return files


def arrangement_family():
    """bounded-exhaustive: same-named definitions of each kind at three module levels x every spelling from each level"""
    progs = []
    kinds = ["struct", "custom", "iface", "alias"]
    levels = [["A"], ["A", "B"], ["A", "B", "C"]]
    spellings = [("ref", False, ["X"]), ("ref", False, ["B", "X"]), ("ref", False, ["A", "B", "X"]), ("ref", True, ["A", "X"]), ("ref", True, ["X"]),
                 ("ref", False, ["C", "X"]), ("ref", False, ["A", "X"]), ("ref", True, ["A", "B", "C", "X"]), ("ref", False, ["B", "C", "X"])]
    for present in itertools.product([None] + kinds, repeat=3):
        if not any(present):
            continue
        for user_level in range(3):
            files = []
            for lvl, k in zip(levels, present):
                if k == "struct":
                    files.append({"module": lvl, "defs": [("struct", "X", [])]})
                elif k == "custom":
                    files.append({"module": lvl, "defs": [("custom", "X")]})
                elif k == "iface":
                    files.append({"module": lvl, "defs": [("iface", "X", [], [])]})
                elif k == "alias":
                    files.append({"module": lvl, "defs": [("alias", "X", ("prim", "int32"), [lvl.__len__()])]})
            files.append({"module": levels[user_level], "defs": [("struct", "U", [("u%d" % i, s) for i, s in enumerate(spellings)]),
                                                                  ("iface", "V", [spellings[0], spellings[2]], [])]})
            progs.append(files)
    return progs


def chain_family(rng, n):
    """alias chains up to length 4 with attributes on each link, ending in each kind of target, incl. loops"""
    progs = []
    for _ in range(n):
        L = rng.randrange(1, 5)
        end = rng.choice(["struct", "custom", "prim", "seq", "iface", "loop", "missing", "enum"])
        mods = [rng.choice(MODULES[:3]) for _ in range(L + 1)]
        files = []
        for i in range(L):
            if i + 1 < L:
                tgt = ("ref", True, mods[i + 1] + ["L%d" % (i + 1)]) if rng.random() < 0.5 else ("ref", False, mods[i + 1] + ["L%d" % (i + 1)])
            else:
                tgt = {"struct": ("ref", True, mods[L] + ["T"]), "custom": ("ref", True, mods[L] + ["T"]), "iface": ("ref", True, mods[L] + ["T"]), "enum": ("ref", True, mods[L] + ["T"]),
                       "prim": ("prim", "string"), "seq": ("seq", ("prim", "int32"), rng.choice(FORMS)), "loop": ("ref", True, mods[rng.randrange(0, L)] + ["L%d" % 0]), "missing": ("ref", False, ["Nope"])}[end]
                if end == "loop":
                    j = rng.randrange(0, L)
                    tgt = ("ref", True, mods[j] + ["L%d" % j])
            files.append({"module": mods[i], "defs": [("alias", "L%d" % i, tgt, [rng.randrange(1, 9) for _ in range(rng.choice([0, 1, 2]))])]})
        if end in ("struct", "custom", "iface", "enum"):
            files.append({"module": mods[L], "defs": [{"struct": ("struct", "T", []), "custom": ("custom", "T"), "iface": ("iface", "T", [], []), "enum": ("enum", "T", None)}[end]]})
        files.append({"module": mods[0], "defs": [("struct", "U", [("u", ("ref", False, ["L0"])), ("v", ("seq", ("ref", True, mods[0] + ["L0"]), rng.choice(FORMS))), ("w", ("ref", False, ["L0"], (9, 4))),
                                                                      ("x", ("seq", ("ref", False, ["L0"], (3,)), rng.choice(FORMS)))]),
                                                   ("iface", "W", [("ref", False, ["L0"])], []), ("enum", "E", ("ref", False, ["L0"]))]})
        rng.shuffle(files)
        progs.append(files)
    return progs


def run(ck):
    rng = ck.rng
    progs = [(p, "arrangement") for p in arrangement_family()]
    progs += [(p, "alias-chain") for p in chain_family(rng, 2000 if ck.tier == "quick" else 20000)]
    progs += [(gen_program(rng, False), "random") for _ in range(6000 if ck.tier == "quick" else 100000)]
    built = [build(p) for p, _ in progs]
    texts = [render(p) for p, _ in progs]
    m = core.run_model("resolve", [b[0] for b in built], chunk=2000)
    o = core.run_impl("dump", ["dump - " + " ".join(hx(t) for t in ts) for ts in texts], chunk=500, timeout=120)
    ck.stream("bindings", description="multi-file programs over modules A, A::B, A::B::C, B, D with colliding names, 9+ reference spellings, alias chains with attributes ending in each kind of target (also a sequence, dictionary or result type); references inside sequences, dictionary values and results; observable per reference: the bound definition (kind, scoped id) and its inherited attributes, or unpatched with E017/E033 at the reference")
    nrefs = 0
    for (prog, fam), (line, queries, desc), ts, mo, oo in zip(progs, built, texts, m, o):
        ck.count("bindings", line, kind=fam)
        files_sx, diags = split_dump(oo)
        if files_sx is None:
            ck.violation("bindings", "crash", "\n--\n".join(ts), mo, oo[:200], signature={"observable": oo.split(" ")[0]})
            continue
        pos = [(fi, p) for fi, f in enumerate(files_sx) for p in positions(f)]
        res = mo.split(" ") if mo else []
        if len(pos) != len(queries):
            ck.violation("bindings", "harness-position-mismatch", "\n--\n".join(ts), str(len(queries)), str(len(pos)), kind="correspondence")
            continue
        ri = 0
        # interfaces: resolution of the base list stops at the first failing base, and then no base is patched
        res_all, k = [], 0
        for qd in queries:
            if qd is None:
                res_all.append(None)
            else:
                res_all.append(res[k]); k += 1
        groups = {}
        for i, qd in enumerate(queries):
            if qd and qd.get("group") is not None:
                groups.setdefault(qd["group"], []).append(i)
        skip_code, force_unpatched = set(), set()
        for g, idxs in groups.items():
            bad = [i for i in idxs if not res_all[i].startswith("B")]
            if bad:
                force_unpatched.update(idxs)
                skip_code.update(i for i in idxs if i != bad[0])
        for qi, (qd, (fi, tr)) in enumerate(zip(queries, pos)):
            if qd is None:
                continue
            r = res[ri]; ri += 1
            nrefs += 1
            for form in qd["inner"]:
                kind, at = {"seq": ("seq", 1), "dictv": ("dict", 2), "res1": ("res", 1), "res2": ("res", 2)}[form]
                if len(tr) > 4 and tr[4][0] == kind:
                    tr = tr[4][at]
            if len(tr) < 5:
                continue
            obs, oattrs, ospan = observed_of(tr)
            if qi in force_unpatched:
                if obs != ("unpatched",):
                    ck.violation("bindings", "base-bound-despite-failing-sibling", "\n--\n".join(ts), "unpatched", repr(obs), detail=line)
                elif qi not in skip_code:
                    code = {"missing": "E033", "mismatch": "E017"}.get(r, "?")
                    here = [d["code"] for d in diags if d["span"] == "string-%d:%s" % (fi, ospan)]
                    if code not in here:
                        ck.violation("bindings", "wrong-error-code", "\n--\n".join(ts), "%s at %s" % (code, ospan), repr(here), detail=qd["q"])
                continue
            if r.startswith("B"):
                rid, ra = r[1:].split(":")
                want = desc[int(rid)]
                wattrs = ["x::a%d" % a for a in qd["own"]] + ([] if ra == "-" else ["x::a%s" % a for a in ra.split(".")])
                ok = (obs[:1] == want[:1] and (want[0] != "named" or obs == want) and (want[0] != "prim" or obs == want))
                if not ok:
                    ck.violation("bindings", "wrong-binding", "\n--\n".join(ts), "%s -> %r" % (qd["q"], want), repr(obs), detail=line)
                elif oattrs != wattrs:
                    ck.violation("bindings", "wrong-attributes", "\n--\n".join(ts), "%s -> attrs %r" % (qd["q"], wattrs), repr(oattrs), detail=line)
            else:
                code = {"missing": "E033", "mismatch": "E017"}.get(r, "?")
                if obs != ("unpatched",):
                    ck.violation("bindings", "bound-but-should-fail", "\n--\n".join(ts), "%s -> %s" % (qd["q"], r), repr(obs), detail=line)
                else:
                    here = [d["code"] for d in diags if d["span"] == "string-%d:%s" % (fi, ospan)]
                    if code not in here:
                        ck.violation("bindings", "wrong-error-code", "\n--\n".join(ts), "%s at %s" % (code, ospan), repr(here), detail=qd["q"])
    ck.stream("bindings")["references_checked"] = nrefs
    ck.samples.append({"stream": "bindings", "case": texts[-1], "model_input": built[-1][0][:400], "model": m[-1], "impl": o[-1][:400]})
    ck.extra["exhaustive"] = True
    ck.extra["rule"] = ("bounded-exhaustive arrangements: every assignment of {none, struct, custom, interface, alias} named X to the module levels A, A::B, A::B::C x a user at each level referencing X by 9 spellings as a field type and 2 as a base; "
                        "alias chains of length 1..4 with attributes on each link ending in every kind of target (incl. loops, missing, interface, primitive, sequence), files shuffled; random multi-file programs. "
                        "%d references compared this run. Distinct by program text." % nrefs)
    ck.partial.append("the table handed to the model is built by the Python generator in Ast::add_named_element order (members when their container is constructed, the container after them, a file's module key last); that order is part of the generator, exercised by collisions")
