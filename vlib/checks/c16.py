"""C16: doc comments keep their text, tags and links."""
import random
from .. import core
from ..front_common import hx, unhx, parse_sexp, split_dump, child

ALLOWED_AXIOMS = ()
COMPONENT = "doc"
INDENTS = ["", " ", " ", "  ", "    ", "\t", " \t ", "　", "  ", "  ", "   "]
WORDS = ["text", "more words", "ünï cödé", "日本語", "a{b", "{ not a tag", "x }", "{x}", "tab\there", "end.", "@ in the middle", "a: b", "::", "emoji 😀"]
PRIMS = ["bool", "int32", "string", "uint8", "varint62"]


class Prog:
    """A program with every kind of commentable element, spread over nested modules; comments are attached by the caller."""

    def __init__(self, rng):
        self.rng = rng
        self.elems = []      # dicts: scoped (list), kind, params, rets, lines (doc comment lines or None), file
        self.entities = []   # (scoped list, kind) in any order (keys are unique)
        self.files = []

    def build(self):
        rng = self.rng
        mods = rng.sample([["A"], ["A", "B"], ["A", "B", "C"], ["D"], ["A", "E"]], k=rng.choice([1, 2, 3]))
        n = 0
        for fi, mod in enumerate(mods):
            body = []
            self.entities.append((mod, "module"))
            defs = rng.sample(["struct", "interface", "enum", "benum", "custom", "alias", "struct"], k=rng.choice([2, 3, 4, 5]))
            for kind in defs:
                n += 1
                # a few names are shared between modules so that the innermost one must win
                name = rng.choice(["S", "T", "U%d" % n, "V%d" % n])
                if any(e[0] == mod + [name] for e in self.entities):
                    name = "W%d" % n
                sc = mod + [name]
                if kind == "struct":
                    self.add(sc, "struct", fi)
                    fields = []
                    for j in range(rng.choice([0, 1, 2])):
                        f = "f%d" % j
                        fields.append((self.add(sc + [f], "field", fi), "%s: %s" % (f, rng.choice(PRIMS))))
                    body.append((self.elems[-1 - len(fields)], "struct %s {" % name, fields, "}"))
                elif kind == "interface":
                    self.add(sc, "interface", fi)
                    iface = self.elems[-1]
                    ops = []
                    for j in range(rng.choice([0, 1, 2, 3])):
                        o = "op%d" % j
                        ps = ["p%d" % q for q in range(rng.choice([0, 1, 2]))]
                        nr = rng.choice([0, 1, 2])
                        rs = ["r%d" % q for q in range(nr)] if nr >= 2 else (["returnValue"] if nr == 1 else [])
                        for p in ps + (rs if nr >= 2 else []):
                            self.entities.append((sc + [o, p], "parameter"))
                        if nr == 1:
                            self.entities.append((sc + [o, "returnValue"], "parameter"))
                        ret = "" if nr == 0 else (" -> string" if nr == 1 else " -> (%s)" % ", ".join("%s: bool" % r for r in rs))
                        e = self.add(sc + [o], "operation", fi, params=ps, rets=rs)
                        ops.append((e, "%s(%s)%s" % (o, ", ".join("%s: int32" % p for p in ps), ret)))
                    body.append((iface, "interface %s {" % name, ops, "}"))
                elif kind in ("enum", "benum"):
                    self.add(sc, "enum", fi)
                    en = self.elems[-1]
                    ens = []
                    for j in range(rng.choice([1, 2, 3])):
                        a = "En%d" % j
                        e = self.add(sc + [a], "enumerator", fi)
                        if kind == "enum" and rng.random() < 0.5:
                            self.entities.append((sc + [a, "ef"], "field"))
                            ens.append((e, "%s(ef: int32)" % a))
                        else:
                            ens.append((e, a))
                    body.append((en, ("enum %s {" if kind == "enum" else "enum %s : uint8 {") % name, ens, "}"))
                elif kind == "custom":
                    body.append((self.add(sc, "custom", fi), "custom %s" % name, [], None))
                else:
                    body.append((self.add(sc, "alias", fi), "typealias %s = %s" % (name, rng.choice(["Sequence<int32>", "string", "Dictionary<string, bool>"])), [], None))
            self.files.append((mod, body))
        for p in ["bool", "int8", "uint8", "int16", "uint16", "int32", "uint32", "varint32", "varuint32", "int64", "uint64", "varint62", "varuint62", "float32", "float64", "string", "AnyClass"]:
            self.entities.append(([p], "primitive"))
        return self

    def add(self, scoped, kind, fi, params=None, rets=None):
        e = {"scoped": scoped, "kind": kind, "params": params or [], "rets": rets or [], "lines": None, "file": fi}
        self.elems.append(e)
        self.entities.append((scoped, kind))
        return e

    def render(self, crlf=False):
        out = []
        for mod, body in self.files:
            lines = ["module " + "::".join(mod), ""]

            def doc(e, ind):
                return [ind + "///" + l for l in (e["lines"] or [])]
            for e, head, members, tail in body:
                lines += doc(e, "")
                lines.append(head)
                for me, text in members:
                    lines += doc(me, "    ")
                    lines.append("    " + text)
                if tail:
                    lines.append(tail)
                lines.append("")
            out.append(("\r\n" if crlf else "\n").join(lines) + ("\r\n" if crlf else "\n"))
        return out


def targets(rng, prog, e):
    """link targets of every kind and scope distance, as written identifiers"""
    sc = e["scoped"]
    ents = prog.entities
    pick = rng.choice(ents)[0]
    cands = [
        "::".join(pick), "::" + "::".join(pick), pick[-1], "::".join(pick[-2:]), "::".join(pick[1:]) or pick[0],
        "Nope", "A::Nope", "::Nope", sc[-1], "::".join(sc), "int32", "string", "A", "A::B", "f0", "op0", "En0", "p0", "returnValue", "S", "T", "::S",
        "op0::p0", "En0::ef", sc[-1] + "::f0",
    ]
    return rng.choice(cands)


def text_piece(rng, prog, e, first):
    if rng.random() < 0.3:
        t = targets(rng, prog, e)
        return rng.choice(["{@link %s}", "{@link %s}", "{ @link  %s }", "{@link %s }"]) % t
    w = rng.choice(WORDS)
    if first and w.lstrip().startswith("@"):
        w = "x" + w
    return w


def message_line(rng, prog, e):
    k = rng.choice([1, 1, 2, 3, 4])
    parts = [text_piece(rng, prog, e, i == 0) for i in range(k)]
    return rng.choice(["", " ", " ", "  "]).join(parts) if rng.random() < 0.3 else " ".join(parts)


def good_comment(rng, prog, e, uniform=False):
    lines = []
    base = rng.choice(INDENTS)
    for _ in range(rng.choice([0, 1, 1, 2, 3, 6])):
        r = rng.random()
        if r < 0.12:
            lines.append(rng.choice(["", "", " ", "\t ", "　"]))
        else:
            ind = base + (rng.choice(INDENTS) if rng.random() < 0.4 and not uniform else "")
            lines.append(ind + message_line(rng, prog, e))
    names_p = e["params"] + ["nosuch"] + e["rets"][:1]      # also a name that belongs to the other list
    names_r = e["rets"] + ["nosuch"] + e["params"][:1]
    for _ in range(rng.choice([0, 0, 1, 2, 3])):
        kind = rng.choice(["param", "returns", "see"] if e["kind"] == "operation" or rng.random() < 0.3 else ["see"])
        ind = rng.choice(INDENTS)
        if kind == "see":
            lines.append(ind + "@see " + targets(rng, prog, e) + rng.choice(["", " ", "  "]))
            continue
        head = "@param " + rng.choice(names_p) if kind == "param" else "@returns" + rng.choice(["", " " + rng.choice(names_r)])
        r = rng.random()
        if r < 0.6:
            head += rng.choice([":", " :", ": ", ":   "]) + message_line(rng, prog, e)
        elif r < 0.75:
            head += ":" + rng.choice(["", "  "])
        lines.append(ind + head)
        cbase = rng.choice(INDENTS)
        for _ in range(rng.choice([0, 0, 1, 2])):
            if rng.random() < 0.15:
                lines.append("")
            else:
                lines.append(cbase + rng.choice(["", " ", "  "]) + message_line(rng, prog, e))
    return lines or [" x"]


DEFECTS = [" @foo bar", " text {@link X", " {@param x} text", " @", " @ param x", " @param", " @param 1x: y", " @see", " @see A::", " {@link}", " {@link A B}",
           " @param x y", " @param x; z", " @link X", " {@see X}", " @param x:: y", " {@link A::}", " {@link ::}", " @returns x y: z", " @see A: text", " {@}", " {@link A} {@",
           " @param x: ok {@link", " @see ::A b", " {@link A}}{@link B", " @see A　::B ü"]


def bad_comment(rng, prog, e):
    lines = good_comment(rng, prog, e)
    d = rng.choice(DEFECTS + ["AFTERSEE"])
    if d == "AFTERSEE":
        return lines + [" @see S", rng.choice([" text after a see tag", "", " {@link S}"])]
    pos = rng.randrange(0, len(lines) + 1)
    return lines[:pos] + [d] + lines[pos:]


KINDNAME = {"struct": "struct", "field": "field", "interface": "interface", "operation": "operation", "enum": "enum", "enumerator": "enumerator",
            "custom": "custom_type", "alias": "type_alias"}


def dump_elements(files):
    """scoped name -> (kind, doc sexp) for every commentable element in the dump"""
    out = {}
    for f in files:
        mod = child(f, "module")[1]
        for d in child(f, "defs")[1:]:
            sc = mod + "::" + d[1]
            out[sc] = (d[0], child(d, "doc"))
            if d[0] == "struct":
                for m in child(d, "fields")[1:]:
                    out[sc + "::" + m[1]] = ("field", m[6])
            elif d[0] == "interface":
                for o in child(d, "ops")[1:]:
                    out[sc + "::" + o[1]] = ("operation", child(o, "doc"))
            elif d[0] == "enum":
                for e in child(d, "enumerators")[1:]:
                    out[sc + "::" + e[1]] = ("enumerator", child(e, "doc"))
    return out


def strip_docs(sx):
    """the dump without doc nodes and without any location"""
    import re
    if isinstance(sx, list):
        if sx and sx[0] == "doc":
            return "doc"
        return [strip_docs(x) for x in sx]
    return re.sub(r"\d+:\d+-\d+:\d+", "_", sx)


def doc_location_defects(fsx, text, own_lines=True):
    """every location inside a doc comment lies within that comment's lines: the comment's own extent runs over `///` lines only and starts at the
    slashes, everything inside it lies within that extent, a tag's extent starts at its '@word', a link's at '@link'"""
    out = []
    lines_ = text.split("\n")
    # own_lines: every doc comment line holds nothing but the comment (C16's programs); otherwise a comment may follow other tokens on its line
    docline = (lambda l: l.lstrip(" \t\u3000\xa0\u2003").startswith("///")) if own_lines else (lambda l: "///" in l)

    def span(x):
        a, b = x.split("-")
        (r1, c1), (r2, c2) = [int(v) for v in a.split(":")[-2:]], [int(v) for v in b.split(":")[-2:]]
        return (r1, c1), (r2, c2)

    def at(pos, n):
        r, c = pos
        return lines_[r - 1][c - 1:c - 1 + n] if 1 <= r <= len(lines_) else None

    def walk(x):
        if not isinstance(x, list):
            return
        if x and x[0] == "doc" and len(x) > 1 and x[1] != "-":
            d0, d1 = span(x[1])
            if not (1 <= d0[0] <= d1[0] <= len(lines_)):
                out.append("comment extent %s outside the file" % x[1])
                return
            for r in range(d0[0], d1[0] + 1):
                if own_lines and not docline(lines_[r - 1]):
                    out.append("comment extent %s covers line %d, which is not a doc comment line: %r" % (x[1], r, lines_[r - 1][:60]))
            if not docline(lines_[d0[0] - 1]) or not docline(lines_[d1[0] - 1]):
                out.append("comment extent %s starts or ends on a line without a doc comment" % x[1])
                return
            if d0[1] - 1 < lines_[d0[0] - 1].index("///"):
                out.append("comment extent %s starts before the slashes of its line" % x[1])
            if d1[1] > len(lines_[d1[0] - 1].rstrip("\r")) + 1:
                out.append("comment extent %s ends beyond its line" % x[1])

            # the comment's lines as written: the run of doc comment lines around the recorded extent
            isdoc = lambda r: 1 <= r <= len(lines_) and docline(lines_[r - 1])
            lo, hi = d0[0], d1[0]
            while isdoc(lo - 1):
                lo -= 1
            while isdoc(hi + 1):
                hi += 1

            def inner(y):
                if not isinstance(y, list):
                    return
                for k, z in enumerate(y):
                    if isinstance(z, str) and k > 0 and "-" in z and ":" in z and z[0].isdigit():
                        try:
                            s0, s1 = span(z)
                        except ValueError:
                            continue
                        if not (lo <= s0[0] <= s1[0] <= hi) or s0 > s1 or not docline(lines_[s0[0] - 1]) or not docline(lines_[s1[0] - 1]) or s0[1] - 1 < lines_[s0[0] - 1].index("///") or s1[1] > len(lines_[s1[0] - 1].rstrip("\r")) + 1:
                            out.append("%s part %s lies outside the lines of its comment %s" % (y[0], z, x[1]))
                        elif y[0] in ("p", "r", "s", "l"):
                            want = {"p": "@param", "r": "@returns", "s": "@see", "l": "@link"}[y[0]]
                            if at(s0, len(want)) != want:
                                out.append("%s part %s starts at %r, not at %s" % (y[0], z, at(s0, 10), want))
                    elif isinstance(z, list):
                        inner(z)
            for sec in x[2:]:
                inner(sec)
            return
        for y in x:
            walk(y)
    walk(fsx)
    return out


def run(ck):
    rng = ck.rng
    n = 1500 if ck.tier == "quick" else 15000
    progs, lines = [], []
    for i in range(n):
        p = Prog(random.Random(rng.randrange(1 << 60))).build()
        mode = rng.choice(["good", "good", "mixed", "uniform"])
        for e in p.elems:
            r = rng.random()
            if r < 0.35:
                continue
            if mode == "mixed" and r > 0.8:
                e["lines"] = bad_comment(rng, p, e)
            else:
                e["lines"] = good_comment(rng, p, e, uniform=(mode == "uniform"))
        crlf = rng.random() < 0.15
        texts = p.render(crlf)
        order = list(range(len(texts)))
        rng.shuffle(order)
        p.crlf = crlf
        p.order = order
        progs.append(p)
        lines.append("dump - " + " ".join(hx(texts[j]) for j in order))
        # the same program without any doc comment
        for e in p.elems:
            e["saved"], e["lines"] = e["lines"], None
        bare = p.render(crlf)
        for e in p.elems:
            e["lines"] = e["saved"]
        lines.append("dump - " + " ".join(hx(bare[j]) for j in order))
    o = core.run_impl("dump", lines, chunk=60, timeout=300)
    ck.stream("comments", description="generated programs (1-3 files in nested modules, every commentable position: struct, field, interface, operation, enum, enumerator, custom, alias) with generated comments: "
              "0..6 overview lines with ASCII/tab/ideographic/no-break/em-space indentation, blank and white-space-only lines, links at line start/middle/end with and without inner spaces, "
              "param/returns/see tags with inline and continuation messages, link targets of every kind and scope distance (members, primitives, modules, parameters, missing, global), "
              "a catalogue of 27 malformed forms; LF and CRLF files; files in random order. Per element the model parses the written lines; compared with the AST dump and the diagnostics.")
    # model: parse every comment
    mlines, where = [], []
    for pi, p in enumerate(progs):
        for e in p.elems:
            if e["lines"] is not None:
                mlines.append("doc %s %s %s L %s" % (e["kind"], ",".join(hx(x) for x in e["params"]) or "-", ",".join(hx(x) for x in e["rets"]) or "-", " ".join(hx(l) for l in e["lines"])))
                where.append((pi, e))
    m = core.run_model("doc", mlines, chunk=2000)
    dist = ck.stream("comments")["distribution"]
    for (pi, e), mo in zip(where, m):
        e["model"] = mo
        k = "comment:" + (" ".join(mo.split(" ")[:3]).split(":")[0] if mo.startswith("err") else "ok") + ":" + e["kind"]
        dist[k] = dist.get(k, 0) + 1
    # link queries
    qlines, qwhere = [], []
    for pi, p in enumerate(progs):
        ids = {}

        def intern(s):
            return ids.setdefault(s, len(ids))
        entries = ["%s;%s;%d" % (".".join(str(intern(x)) for x in sc), kind, k) for k, (sc, kind) in enumerate(p.entities)]
        qs = []
        for e in p.elems:
            mo = e.get("model", "")
            if not mo.startswith("ok "):
                continue
            docsx = parse_sexp(mo[3:].split(" | lints")[0])
            e["mdoc"] = docsx
            links = []
            for sec in docsx:
                for item in sec[1:]:
                    if isinstance(item, list):
                        if item[0] in ("l", "s"):
                            links.append(item)
                        else:
                            links += [c for c in item[1:] if isinstance(c, list) and c[0] == "l"]
            for l in links:
                w = unhx(l[1])
                g = w.startswith("::")
                name = (w[2:] if g else w).split("::")
                qs.append("%s;%d;%s" % (".".join(str(intern(x)) for x in e["scoped"]), 1 if g else 0, ".".join(str(intern(x)) for x in name)))
                l.append(len(qs) - 1)
        qlines.append("link " + " ".join(entries) + " # " + " ".join(qs))
    qm = core.run_model("doc", qlines, chunk=200)
    # compare
    for pi, p in enumerate(progs):
        with_docs, bare = o[2 * pi], o[2 * pi + 1]
        case = "\n--\n".join(p.render(p.crlf))
        ck.count("comments", case, kind="crlf" if p.crlf else "lf")
        files, diags = split_dump(with_docs)
        bfiles, bdiags = split_dump(bare)
        if files is None or bfiles is None:
            ck.violation("comments", "crash", case, "a dump", (with_docs if files is None else bare)[:300])
            continue
        if bdiags:
            ck.violation("comments", "generator-invalid", case, "no diagnostics without comments", str(bdiags[:2])[:300], kind="correspondence")
            continue
        # 0. locations inside comments lie within the comment's lines
        texts_ = p.render(p.crlf)
        for k, fsx in enumerate(files):
            for defect in doc_location_defects(fsx, texts_[p.order[k]])[:2]:
                ck.violation("comments", "comment-location-outside-comment", case, "every part of a doc comment within that comment's lines", defect)
        # 1. comments never cost the element or its siblings, and produce warnings only
        if strip_docs(files) != strip_docs(bfiles):
            ck.violation("comments", "element-changed-by-comment", case, "the same AST (comments and locations aside) as without comments", "differs")
        errs = [d for d in diags if d["level"] == "Error" or d["code"] not in ("MalformedDocComment", "BrokenDocLink", "IncorrectDocComment")]
        if errs:
            ck.violation("comments", "comment-defect-is-not-a-warning", case, "warnings MalformedDocComment/BrokenDocLink/IncorrectDocComment only", "%s %s: %s" % (errs[0]["level"], errs[0]["code"], errs[0]["msg"]))
        got = dump_elements(files)
        res = qm[pi].split(" ") if qm[pi] else []
        for r in res:
            k = "link:" + ("bound" if r.startswith("to") else r)
            dist[k] = dist.get(k, 0) + 1
        exp_lints = []
        for e in p.elems:
            sc = "::".join(e["scoped"])
            if sc not in got:
                ck.violation("comments", "element-missing", case, sc, "not in the AST")
                continue
            kind, doc = got[sc]
            mo = e.get("model")
            shown = "///" + "\n///".join(e["lines"]) if e["lines"] is not None else None
            if e["lines"] is None:
                if doc[1] != "-":
                    ck.violation("comments", "comment-from-nowhere", case, "%s has no comment" % sc, str(doc)[:200])
                continue
            if mo.startswith("err"):
                exp_lints.append(("MalformedDocComment", sc, mo))
                if doc[1] != "-":
                    ck.violation("comments", "malformed-comment-kept", case, "%s: %s for\n%s" % (sc, mo, shown), str(doc)[:300])
                continue
            if not mo.startswith("ok "):
                ck.violation("comments", "model-error", case, "a result", mo[:200], kind="correspondence")
                continue
            if doc[1] == "-":
                ck.violation("comments", "comment-lost", case, "%s keeps its comment\n%s" % (sc, shown), "no comment")
                continue
            md = e["mdoc"]
            # expected, in the dump's vocabulary

            def conv_comp(c):
                if c[0] == "t":
                    return ("t", unhx(c[1]))
                r = res[c[2]] if c[2] < len(res) else "?"
                if r.startswith("to"):
                    tsc, tk = p.entities[int(r[2:])]
                    return ("l", "ok", KINDNAME.get(tk, tk), "::".join(tsc))
                exp_lints.append(("BrokenDocLink", sc, r + " " + unhx(c[1])))
                return ("l", "unresolved", unhx(c[1]))

            def got_comp(c):
                if c[0] == "t":
                    return ("t", unhx(c[1]))
                return ("l", "ok", c[2], c[3]) if c[1] == "ok" else ("l", "unresolved", c[2])
            ov = child(md, "overview")
            exp = {"overview": None if ov[1:] == ["-"] else [conv_comp(c) for c in ov[1:]],
                   "params": [(unhx(t[1]), [conv_comp(c) for c in t[2:]]) for t in child(md, "params")[1:]],
                   "returns": [(None if t[1] == "-" else unhx(t[1]), [conv_comp(c) for c in t[2:]]) for t in child(md, "returns")[1:]]}
            exp["see"] = []
            for t in child(md, "see")[1:]:
                r = res[t[2]] if t[2] < len(res) else "?"
                if r.startswith("to"):
                    tsc, tk = p.entities[int(r[2:])]
                    exp["see"].append(("ok", KINDNAME.get(tk, tk), "::".join(tsc)))
                else:
                    exp_lints.append(("BrokenDocLink", sc, r + " " + unhx(t[1])))
                    exp["see"].append(("unresolved", unhx(t[1])))
            gov = child(doc, "overview")
            obs = {"overview": None if gov[1] == "-" else [got_comp(c) for c in gov[2:]],
                   "params": [(t[1], [got_comp(c) for c in t[3:]]) for t in child(doc, "params")[1:]],
                   "returns": [(None if t[1] == "-" else t[1], [got_comp(c) for c in t[3:]]) for t in child(doc, "returns")[1:]],
                   "see": [("ok", t[2], t[3]) if t[1] == "ok" else ("unresolved", t[2]) for t in child(doc, "see")[1:]]}
            for part in ("overview", "params", "returns", "see"):
                if exp[part] != obs[part]:
                    fam = "link-binding" if _only_links_differ(exp[part], obs[part]) else part + "-text"
                    ck.violation("comments", fam, case, "%s %s of\n%s\n= %r" % (sc, part, shown, exp[part]), repr(obs[part]), detail="element %s (%s)" % (sc, e["kind"]))
                    break
            tl = mo.split(" | lints")[1].split()
            for t in tl:
                exp_lints.append(("IncorrectDocComment", sc, t))
        # 2. the lints: one per defect, scoped to the element
        want = sorted((c, s) for c, s, _ in exp_lints)
        have = sorted((d["code"], d["scope"]) for d in diags if d["code"] in ("MalformedDocComment", "BrokenDocLink", "IncorrectDocComment"))
        if want != have:
            extra = [x for x in have if x not in want] + [x for x in want if x not in have]
            ck.violation("comments", "lints-differ", case, "lints %r" % (want[:8],), "%r; first difference %r" % (have[:8], extra[:1]))
        else:
            # messages of lexical errors
            for c, s, why in exp_lints:
                if c == "MalformedDocComment" and why.startswith("err lex "):
                    msg = _lex_message(why[8:])
                    if not any(d["code"] == c and d["scope"] == s and d["msg"] == msg for d in diags):
                        ck.violation("comments", "malformed-message", case, "%s: %s" % (s, msg), str([d["msg"] for d in diags if d["scope"] == s])[:300])
                elif c == "MalformedDocComment":
                    if not any(d["code"] == c and d["scope"] == s and d["msg"].startswith("expected") for d in diags):
                        ck.violation("comments", "malformed-message", case, "%s: a syntax error (expected ..., but found ...)" % s, str([d["msg"] for d in diags if d["scope"] == s])[:300])
    ck.samples.append({"stream": "comments", "case": mlines[0][:300], "model": m[0][:300], "impl": o[0][:300]})
    ck.extra["rule"] = "%d generated programs, each compiled with and without its comments (%d comments parsed by the model); distinct by program text" % (n, len(mlines))
    ck.partial.append("locations inside comments are covered by C09; the text of syntax-error messages (LALRPOP's expected-token lists) is not modelled, only that the lint is a syntax error at that comment")


def _only_links_differ(a, b):
    def blank(x):
        if isinstance(x, (list, tuple)):
            if len(x) >= 2 and x[0] in ("l", "ok", "unresolved"):
                return "L"
            return [blank(y) for y in x]
        return x
    return blank(a) == blank(b)


def _lex_message(k):
    parts = k.split(":")
    if parts[0] == "missingtag":
        return "missing doc comment tag"
    if parts[0] == "unknowntag":
        return "unknown doc comment tag '%s'" % unhx(parts[1])
    if parts[0] == "wrongcontext":
        return "doc comment tag '%s' cannot be used %s" % (unhx(parts[1]), "inline" if parts[2] == "1" else "to start a block")
    if parts[0] == "unknownsymbol":
        return "unknown symbol '%s'" % unhx(parts[1])
    return "missing a closing '}' on an inline doc comment tag"
