"""C06: conditional compilation."""
import re as _re
import itertools
from .. import core

ALLOWED_AXIOMS = ()
COMPONENT = "prep"

FORMS = ["struct S%d {}", "  struct S%d {}", "#if A", "#if !A", "#if A && B", "#elif B", "#else", "#endif",
         "#define A", "#undef A", "#define B", "  # endif // done"]
BAD_FORMS = ["#", "#foo", "#if", "#else X", "#if A &", "#define", "#if (A", "#elif", "#endif endif", "#if A B", "# define 1A", "#if A | B", "#if A && !B", "#if !!A"]
SUBSETS = ["-", "A", "B", "C", "A,B", "A,C", "B,C", "A,B,C"]


def hx(s):
    return s.encode().hex() if s else "-"


def file_of(lines, eol="\n", last_eol=True):
    return eol.join(["module M"] + [l % (i + 1) if "%d" in l else l for i, l in enumerate(lines)]) + (eol if last_eol else "")


def probes_of(lines):
    return {i + 1 for i, l in enumerate(lines) if "%d" in l}


def expected_from_model(mo, probe_idx):
    """model prints every selected source line; keep the probe lines, named S<i>."""
    if mo.startswith("rej") or mo.startswith("SPECMISMATCH"):
        return mo.split(" ")[0]
    out = ["acc"]
    for it in mo.split(" ")[1:]:
        i, loc = it.split("@")
        if int(i) in probe_idx:
            out.append("S%s@%s" % (i, loc))
    return " ".join(out)


def gen_exprs(depth):
    """Expression := Term | !Term | Expression && Term | Expression || Term ; Term := id | (Expression)"""
    ids = ["A", "B", "C"]
    terms = {0: list(ids)}
    exprs = {0: list(ids) + ["!" + t for t in ids]}
    for d in range(1, depth + 1):
        t = list(ids) + ["(" + e + ")" for e in exprs[d - 1]]
        terms[d] = t
        e = list(t[:40]) + ["!" + x for x in t[:40]]
        base = exprs[d - 1][:60]
        for x in base:
            for op in ("&&", "||"):
                for y in t[:12]:
                    e.append("%s %s %s" % (x, op, y))
        exprs[d] = e
    return exprs[depth]


def defect_cases(rng, n):
    """files with two or more independent defective directives -> [(text, rows of the defects)]"""
    scases = []
    for _ in range(n):
        ls, rows = ["module M"], []
        for _ in range(rng.choice([2, 3, 4, 6])):
            r = rng.random()
            if r < 0.45:
                ls.append(rng.choice(["#endif", "#else", "#elif A", "#undef", "#define", "  #endif // x", "#else // y", "#define // nothing", "#undef\t",
                                      "\u3000#endif", "#define\u3000", "#undef \u00a0// \u00e9t\u00e9", "\u00a0 #else", "#define // \U0001F600"]))
                rows.append(len(ls))
            elif r < 0.7:
                ls.append("struct S%d {}" % len(ls))
            else:
                ls += ["#if A", "struct T%d {}" % len(ls), rng.choice(["#else", "#elif B"]), "struct U%d {}" % len(ls), "#endif"]
        if rng.random() < 0.3:
            # a region left open, the file's last line a directive: one more report, at the end of that line
            ls += ["#if A"] + (["#define B // \u00e9"] if rng.random() < 0.5 else [])
            rows.append(len(ls))
        if len(rows) >= 2:
            scases.append(("\n".join(ls) + "\n", rows))
    return scases


def defect_spans(text, rows):
    """where exactly each defect is reported, read from the source: a keyword that has no place from its '#' to its last letter; a directive that ends
    too early (and a file that ends with a region open) at the end of the line, where the line feed stands; columns count characters"""
    tl = text.split("\n")
    want = set()
    for r_ in set(rows):
        l_ = tl[r_ - 1]
        kw = _re.search(r"#(endif|else|elif)", l_)
        if kw:
            want.add("%d:%d-%d:%d" % (r_, kw.start() + 1, r_, kw.end() + 1))
        else:
            want.add("%d:%d-%d:%d" % (r_, len(l_) + 1, r_, len(l_) + 1))
    return want


def run(ck):
    rng = ck.rng
    cases, probes = [], []

    def add(lines, syms, eol="\n", kind="seq", last_eol=True):
        cases.append(("prep %s %s" % (syms, hx(file_of(lines, eol, last_eol))), kind))
        probes.append(probes_of(lines))

    # 1. bounded-exhaustive line sequences over well-formed-heavy forms
    L = 4
    for n in range(0, L + 1):
        for seq in itertools.product(FORMS, repeat=n):
            for s in SUBSETS:
                add(seq, s, kind="exh<=%d" % L)
    extra_subsets = ["-", "A"] if ck.tier == "quick" else SUBSETS
    for seq in itertools.product(FORMS, repeat=L + 1):
        for s in extra_subsets:
            add(seq, s, kind="exh=%d" % (L + 1))
    if ck.tier == "thorough":
        for seq in itertools.product(FORMS, repeat=L + 2):
            add(seq, "A", kind="exh=%d" % (L + 2))
    # 1b. the same short sequences in files that end without a line break (the last line may be a directive)
    for n in range(1, 4):
        for seq in itertools.product(FORMS, repeat=n):
            for sy in ("-", "A", "A,B"):
                add(seq, sy, kind="no-final-eol", last_eol=False)
                if n <= 2:
                    add(seq, sy, eol="\r\n", kind="no-final-eol", last_eol=False)
    # 2. sequences with malformed forms
    allf = FORMS[:9] + BAD_FORMS
    for n in range(1, 4):
        for seq in itertools.product(allf, repeat=n):
            if any(f in BAD_FORMS for f in seq):
                add(seq, "A", kind="malformed")
    # 3. expressions to depth 3 x all valuations
    for e in gen_exprs(3 if ck.tier == "thorough" else 2):
        for s in SUBSETS:
            add(["#if " + e, "struct S%d {}", "#else", "struct S%d {}", "#endif"], s, kind="expr")
    # 4. random longer files: nesting <= 5, indentation before '#', trailing comments, CRLF, blank lines
    nrand = 3000 if ck.tier == "quick" else 30000
    for _ in range(nrand):
        lines, depth = [], 0
        for _ in range(rng.randrange(3, 40)):
            r = rng.random()
            ind = " " * rng.choice([0, 0, 1, 4]) + ("\t" if rng.random() < 0.1 else "")
            cm = rng.choice(["", "", " // c", "//x", " // é—ö", "//日本語 ü"])
            if r < 0.30:
                lines.append(ind + "struct S%d {}")
            elif r < 0.35:
                # characters of two, three and four bytes before, on and after the probe line
                v = rng.choice(["struct S%d {} /* ü */", "struct S%d {} // é°—ö", "/// dôc 日本語 😀", "// ünï cödé 😀"])
                if "%d" not in v:
                    lines.append(ind + v)
                    v = "struct S%d {}"
                lines.append(ind + v)
            elif r < 0.4:
                lines.append("")
            elif r < 0.55 and depth < 5:
                lines.append(ind + "#if " + rng.choice(["A", "!B", "A && C", "(A || B) && !C" if False else "(A || B) && C", "B || C"]) + cm); depth += 1
            elif r < 0.65 and depth > 0:
                lines.append(ind + "#elif " + rng.choice(["A", "B", "C", "A || C"]) + cm)
            elif r < 0.72 and depth > 0:
                lines.append(ind + "#else" + cm)
            elif r < 0.85 and depth > 0:
                lines.append(ind + "#endif" + cm); depth -= 1
            elif r < 0.93:
                lines.append(ind + "#define " + rng.choice("ABC") + cm)
            else:
                lines.append(ind + "#undef " + rng.choice("ABC") + cm)
        if rng.random() < 0.8:
            lines += ["#endif"] * depth
        syms = rng.choice(SUBSETS)
        if rng.random() < 0.4:
            # the same file with its symbols spelled with underscores and digits (also among the externally defined ones)
            ren = {"A": rng.choice(["FOO_BAR", "A_", "_a"]), "B": rng.choice(["x_1", "B2", "b__"]), "C": rng.choice(["C", "c_3_"])}
            lines = [_re.sub(r"\b([ABC])\b", lambda m_: ren[m_.group(1)], l) if l.lstrip().startswith("#") else l for l in lines]
            syms = ",".join(ren[x] for x in syms.split(",")) if syms != "-" else "-"
        if rng.random() < 0.3:
            # the blanks of directive lines (before '#', after it, between the tokens) are any white space, not only spaces and tabs
            WS = ["\x0b", "\x0c", "\x85", "\xa0", "\u1680", "\u2000", "\u2003", "\u200a", "\u2028", "\u2029", "\u202f", "\u205f", "\u3000", "\t", " "]
            def blanks(l):
                if not l.lstrip().startswith("#"):
                    return l
                head, _, comment = l.partition("//")
                head = "".join((rng.choice(WS) if ch == " " and rng.random() < 0.7 else ch) for ch in head)
                if rng.random() < 0.3:
                    head = rng.choice(WS) + head
                if rng.random() < 0.2:
                    head = head.replace("#", "#" + rng.choice(WS), 1)
                return head + (("//" + comment) if _ else "")
            lines = [blanks(l) for l in lines]
        add(lines, syms, eol=rng.choice(["\n", "\n", "\r\n"]), kind="random", last_eol=rng.random() < 0.8)

    lines_in = [c for c, _ in cases]
    m = core.run_model("prep", lines_in, chunk=20000, timeout=900)
    o = core.run_impl("prep", lines_in, chunk=20000, timeout=900)
    exp = [expected_from_model(mo, pr) for mo, pr in zip(m, probes)]
    kinds = [k for _, k in cases]
    kidx = {c: k for c, k in cases}

    def classify(c, mo, oo):
        if oo.startswith(("crash", "panic")):
            return "crash", {}
        if mo.startswith("rej") != oo.startswith("rej"):
            return "accept-reject", {}
        return "selection-or-location", {}
    ck.compare("files", lines_in, exp, o, classify=classify, kind_of=lambda c, mo: kidx[c])
    for i, x in enumerate(m):
        if x.startswith("SPECMISMATCH"):
            ck.violation("files", "model-vs-spec", lines_in[i], "tree evaluation = stack machine (theorem C06_text_refines)", x, kind="correspondence")
            break
    ck.stream("files", description="one file per case, -D symbol subsets; observable: accept/reject (E002) and, for each surviving probe definition, its name and the row:col of its span start")

    # 5. multi-file leakage: #define in one file must not be seen by another
    multi, want = [], []
    a = file_of(["#define A", "struct S%d {}"])
    b = file_of(["#if A", "struct S%d {}", "#else", "struct T%d {}".replace("T", "S") , "#endif"])
    for order in ([a, b], [b, a], [a, b, a], [b, b]):
        for s in ("-", "A"):
            multi.append("prep %s %s" % (s, " ".join(hx(t) for t in order)))
            singles = core.run_model("prep", ["prep %s %s" % (s, hx(t)) for t in order])
            ws = []
            for t, mo in zip(order, singles):
                pr = {i for i, l in enumerate(t.split("\n")) if l.strip().startswith("struct")}
                ws.append(expected_from_model(mo, pr))
            want.append(" / ".join(ws))
    # random multi-file sets: every file must behave as if compiled alone with the command-line symbols
    pool = [file_of(seq) for seq in itertools.product(["#define A", "#undef A", "#define B", "#if A", "#if !B", "#else", "#endif", "struct S%d {}"], repeat=4)]
    good = [t for t, mo in zip(pool, core.run_model("prep", ["prep A " + hx(t) for t in pool])) if mo.startswith("acc")]
    for _ in range(600 if ck.tier == "quick" else 6000):
        order = [rng.choice(good) for _ in range(rng.choice([2, 3]))]
        s = rng.choice(["-", "A", "B", "A,B"])
        multi.append("prep %s %s" % (s, " ".join(hx(t) for t in order)))
        singles = core.run_model("prep", ["prep %s %s" % (s, hx(t)) for t in order])
        ws = []
        for t, mo in zip(order, singles):
            pr = {i for i, l in enumerate(t.split("\n")) if l.strip().startswith("struct")}
            ws.append(expected_from_model(mo, pr))
        want.append(" / ".join(ws))
    om = core.run_impl("prep", multi)
    ck.compare("multi-file", multi, want, om, classify=lambda c, mo, oo: ("leak", {}))
    # 6. doc comments cut by conditional regions: what is reported about the surviving comment lines keeps their lines and columns
    from ..front_common import parse_diags
    dcases = []
    for _ in range(300 if ck.tier == "quick" else 3000):
        lines_, expect, k, depth = ["module M"], [], 0, 0
        defined = rng.random() < 0.5
        host = rng.choice(["struct S {}", "interface I {}", "struct S {\n    %s\n    a: int32\n}", "interface I {\n    %s\n    op()\n}"])
        body, live = [], True
        for _ in range(rng.choice([2, 3, 4, 6])):
            r = rng.random()
            if r < 0.25 and depth == 0:
                body.append(rng.choice(["#if X", "#if !X", "  #if X // c", "#if X || Y"]))
                live = defined if "!" not in body[-1] else not defined
                depth = 1
            elif r < 0.4 and depth >= 1:
                body.append("#endif" if depth == 2 else rng.choice(["#else", "#endif"]))
                if body[-1] == "#else":
                    live, depth = not live, 2          # after #else only #endif can follow
                else:
                    depth, live = 0, True
            else:
                k += 1
                ind = rng.choice(["", "  ", "\t"])
                body.append("%s/// %s{@link Missing%d} é" % (ind, rng.choice(["", "see ", "ünï ", "a b c "]), k))
        if depth >= 1:
            body.append("#endif")
        dcases.append((host, body, defined))
    dl_lines, dmeta = [], []
    for host, body, defined in dcases:
        if "%s" in host:
            pre, post = host.split("%s")
            text_lines = ["module M", pre.split("\n")[0]] + body + post.split("\n")[1:]
        else:
            text_lines = ["module M"] + body + [host]
        text = "\n".join(text_lines) + "\n"
        # which comment lines survive: evaluate the regions as the property says
        live, want, stack = True, [], []
        for row, l in enumerate(text_lines, 1):
            t = l.strip()
            if t.startswith("#if"):
                cond = t[3:].split("//")[0].strip()
                val = {"X": defined, "!X": not defined, "X || Y": defined}[cond]
                stack.append((live, val))
                live = live and val
            elif t.startswith("#else"):
                outer, val = stack[-1]
                live = outer and not val
            elif t.startswith("#endif"):
                live = stack.pop()[0]
            elif live and "{@link Missing" in l:
                name = l[l.index("Missing"):].split("}")[0]
                want.append((row, l.index("Missing") + 1, name))
        dl_lines.append("diags %s %s" % ("D:X" if defined else "-", hx(text)))
        dmeta.append((text, want))
    od = core.run_impl("diags", dl_lines, chunk=200, timeout=120)
    ck.stream("doc-comments-across-directives", description="doc comments whose lines are separated by #if/#else/#endif regions (kept or removed), with a broken link on every comment line: "
              "every link of a surviving line is reported once, at the line and column where it is written (non-ASCII text and tabs before it); links of removed lines are not reported")
    for (text, want), oo, line in zip(dmeta, od, dl_lines):
        ck.count("doc-comments-across-directives", line, kind="%d links" % len(want))
        dl = parse_diags(oo)
        if dl is None:
            ck.violation("doc-comments-across-directives", "crash", text, "diagnostics", oo[:200])
            continue
        got = []
        for d in dl:
            if d["code"] == "BrokenDocLink" and d["span"] != "-":
                a = d["span"].rsplit("-", 1)[0].split(":")
                nm = d["msg"].split("'")[1] if "'" in d["msg"] else "?"
                got.append((int(a[-2]), int(a[-1]), nm))
        other = [d for d in dl if d["code"] != "BrokenDocLink"]
        if sorted(got) != sorted(want) or other:
            ck.violation("doc-comments-across-directives", "comment-line-moved", text, repr(sorted(want)), repr(sorted(got)) + (" and %s %s" % (other[0]["code"], other[0]["msg"]) if other else ""))
    # 7. several independent defects in one file: each is reported where it stands, none is dropped as a consequence of an earlier one
    scases = defect_cases(rng, 300 if ck.tier == "quick" else 3000)
    so = core.run_impl("diags", ["diags - " + hx(t) for t, _ in scases], chunk=200, timeout=120)
    ck.stream("several-defects", description="files with two or more independent defective directives at the top level (a stray #endif, #else or #elif, a #define or #undef without its symbol) between well-formed lines and regions: "
              "a syntax error is reported for every one of them, at the place the source gives (the stray keyword, or the end of the line that ends too early; also for a region still open at the end of the file; blanks and comments with characters of every width)")
    for (text, rows), oo in zip(scases, so):
        ck.count("several-defects", text, kind="%d defects" % len(rows))
        dl = parse_diags(oo)
        if dl is None:
            ck.violation("several-defects", "crash", text, "diagnostics", oo[:200])
            continue
        got = sorted({int(d["span"].rsplit("-", 1)[0].split(":")[-2]) for d in dl if d["code"] == "E002" and d["span"] != "-"})
        if got != sorted(set(rows)):
            ck.violation("several-defects", "defective-directive-not-reported" if len(got) < len(set(rows)) else "reports-differ", text, "syntax errors on lines %s" % sorted(set(rows)), "on lines %s" % got)
            continue
        # where exactly, read from the source: a keyword that has no place is reported from its '#' to its last letter; a directive that ends
        # too early (and a file that ends with a region open) at the end of the line, where the line feed stands; columns count characters
        want = defect_spans(text, rows)
        gots = {_re.search(r"(\d+:\d+-\d+:\d+)$", d["span"]).group(1) for d in dl if d["code"] == "E002" and d["span"] != "-"}
        if gots != want:
            ck.violation("several-defects", "defect-reported-elsewhere", text, "syntax errors at %s" % sorted(want), "at %s" % sorted(gots))
    ck.extra["exhaustive"] = True
    ck.extra["rule"] = ("bounded-exhaustive: all sequences of <= %d lines over %d line forms x all 8 subsets of {A,B,C}, all sequences of %d lines x %d subsets; all sequences of <= 3 lines containing a malformed form; "
                        "%d expressions (grammar-enumerated, depth <= %d) x all 8 valuations; %d random files (nesting <= 5, indentation before '#', any Unicode white space as the blanks of directive lines, trailing comments, CRLF, blank lines); multi-file leakage. "
                        "Distinct by case text; all non-trivial.") % (L, len(FORMS), L + 1, len(extra_subsets), len(gen_exprs(3 if ck.tier == "thorough" else 2)), 3 if ck.tier == "thorough" else 2, nrand)
    ck.partial.append("LALRPOP's error recovery inside directives is modelled at accept/reject level only (how many E002 are listed is not compared)")
