"""C15: results are reproducible and do not depend on the order of the inputs."""
import itertools, random
from .. import core, slicegen, driver_common as dc
from ..front_common import hx
from . import c04

ALLOWED_AXIOMS = ()
NEEDS_SLICEC = True
COMPONENT = "validate"


def collision_program(rng):
    """definitions sharing a scoped name across files, and a definition sharing its scoped name with a module of another file"""
    kind = rng.choice(["def-def", "def-module", "def-module-deeper", "reopened-module", "several-collisions", "several-redefinitions", "preprocessor-symbols", "preprocessor-undef"])
    if kind == "several-collisions":
        names = rng.sample(["Alpha", "Bravo", "Charlie", "Delta", "Echo", "Foxtrot"], rng.choice([3, 4, 5]))
        top = "module Top\n" + "\n".join("struct %s {}" % n for n in names) + "\n"
        return [top] + ["module Top::%s\nstruct In%s {}\n" % (n, n) for n in names], kind
    if kind == "several-redefinitions":
        names = rng.sample(["Alpha", "Bravo", "Charlie", "Delta", "Echo"], 3)
        return ["module Top\n" + "\n".join("struct %s {}" % n for n in names) + "\n", "module Top\n" + "\n".join("custom %s" % n for n in reversed(names)) + "\n"], kind
    if kind == "preprocessor-symbols":
        # a symbol defined in one file must not be visible in another
        a = "#define FLAG\nmodule A\nstruct One {}\n"
        b = "module A\nstruct Two {\n#if FLAG\n    extra: int32\n#endif\n    id: int32\n}\n"
        c = "#if FLAG\nmodule A\nstruct OnlyWithFlag {}\n#else\nmodule A\nstruct OnlyWithoutFlag {}\n#endif\n"
        return rng.choice([[a, b], [a, b, c], [b, a, c]]), kind
    if kind == "preprocessor-undef":
        a = "#define FLAG\n#undef OTHER\nmodule A\nstruct One {}\n"
        b = "#define OTHER\nmodule A\n#if OTHER && !FLAG\nstruct Two { id: int32 }\n#else\nstruct Two { id: int32, more: string }\n#endif\n"
        return [a, b], kind
    if kind == "def-def":
        a = "module A\nstruct X { a: int32 }\n"
        b = "module A\n%s\n" % rng.choice(["struct X {}", "custom X", "enum X { P }", "interface X {}", "typealias X = int32"])
        return [a, b, "module C\nstruct Other {}\n"], kind
    if kind == "def-module":
        a = "module A::B\nstruct Inner { a: int32 }\n"
        b = "module A\n%s\n" % rng.choice(["struct B {}", "custom B", "enum B { P }", "interface B {}", "typealias B = int32"])
        extra = rng.choice(["module A\nstruct UsesB { b: B }\n", "module Z\nstruct Far {}\n"])
        return [a, b, extra], kind
    if kind == "def-module-deeper":
        a = "module A::B::C\nstruct Inner {}\n"
        b = "module A::B\nstruct C {}\n"
        return [a, b], kind
    a = "module A\nstruct One {}\n"
    b = "module A\nstruct Two { o: One }\n"
    c = "module A::B\nstruct Three { o: One, t: A::Two }\n"
    return [a, b, c], kind


def lint_program(rng):
    """several files of one module: deprecated definitions declared in one, used at module scope (aliases) and inside definitions of the others;
    each file may carry a file-level allow, each use its own; base names repeat across directories"""
    k = rng.choice([2, 3, 3, 4])
    ndep = rng.choice([1, 2])
    decl = "module Lib\n" + "".join("[deprecated] %s\n" % rng.choice(["struct Old%d {}", "custom Old%d", "enum Old%d { A }"]).replace("%d", str(i)) for i in range(ndep)) + "struct Fine {}\n"
    texts = [decl]
    for j in range(1, k):
        fa = rng.choice(["", "", "[[allow(Deprecated)]]\n", "[[allow(All)]]\n", "[[allow(BrokenDocLink)]]\n"])
        body = []
        for u in range(rng.choice([1, 2, 3])):
            tgt = "Old%d" % rng.randrange(ndep)
            al = rng.choice(["", "", "[allow(Deprecated)] ", "[allow(All)] "])
            form = rng.choice(["alias", "alias", "field", "param", "doc"])
            if form == "alias":
                body.append("%stypealias A%d_%d = %s" % (al, j, u, tgt))
            elif form == "field":
                body.append("%sstruct S%d_%d { a: %s, b: Sequence<%s> }" % (al, j, u, tgt, tgt))
            elif form == "param":
                body.append("%sinterface I%d_%d { op(p: %s) -> %s }" % (al, j, u, tgt, tgt))
            else:
                body.append("/// See {@link Missing%d}.\n%sstruct D%d_%d {}" % (u, al.replace("Deprecated", "BrokenDocLink"), j, u))
        texts.append(fa + "module Lib\n" + "\n".join(body) + "\n")
    base = rng.choice([["Types.slice"] * k, ["Types.slice", "Types.slice"] + ["Main.slice"] * (k - 2), ["f%d.slice" % j for j in range(k)]])
    names = ["d%d/%s" % (j, b) for j, b in enumerate(base)]
    return texts, names


def cycle_program(rng):
    """one struct per file: a containment graph with at least one cycle, types that lead into it and finite types it leads out to, fields in random order"""
    n = rng.choice([3, 3, 4])
    while True:
        edges = {(a, b) for a in range(n) for b in range(n) if rng.random() < 0.35}
        # some node reaches itself?
        reach = {a: {b for (x, b) in edges if x == a} for a in range(n)}
        for _ in range(n):
            for a in range(n):
                for b in list(reach[a]):
                    reach[a] |= reach[b]
        if any(a in reach[a] for a in range(n)):
            break
    texts = []
    for a in range(n):
        fields = ["t%d: %s" % (b, rng.choice(["T%d", "T%d", "Sequence<T%d>", "T%d?"]) % b) for b in range(n) if (a, b) in edges] + ["leaf: Leaf%d" % a, "n: int32"]
        rng.shuffle(fields)
        texts.append("module Cyc\nstruct T%d { %s }\nstruct Leaf%d { i: int32 }\n" % (a, ", ".join(fields), a))
    return texts


def file_tables(mo):
    """decoded request -> ({path: file sexp text}, sources in order, references in order)"""
    from ..front_common import parse_sexp
    if not mo.startswith("ok "):
        return None
    _, left, idsok, sx = mo.split(" ", 3)
    req = parse_sexp(sx)[0]
    out = {}
    for lst in (req[2], req[3]):
        for f in lst[1:]:
            out[f[1]] = repr(f[2:])
    return out, [f[1] for f in req[2][1:]], [f[1] for f in req[3][1:]]


def run(ck):
    rng = ck.rng
    n = 160 if ck.tier == "quick" else 1600
    progs = []
    for i in range(n):
        r = rng.random()
        if r < 0.25:
            texts, fam = collision_program(rng)
            progs.append((texts, "collision:" + fam, None))
            continue
        if r < 0.40:
            texts, names = lint_program(rng)
            progs.append((texts, "lints", None, names))
            continue
        if r < 0.48:
            progs.append((cycle_program(rng), "cycles", None))
            continue
        g = slicegen.Gen(random.Random(rng.randrange(1 << 60)), nfiles=rng.choice([2, 3, 3, 4]), depth=2, foreign_attrs=False)
        prog = g.program()
        fam = "valid"
        if r < 0.65:
            nm = c04.inject(rng, prog)
            fam = "injected:%s" % nm if nm else "valid"
        elif r < 0.8:
            # warnings: a deprecated definition used from another file
            d = prog["files"][0]["defs"][0]
            d["attrs"] = d["attrs"] + [("deprecated", ["old"])]
            fam = "warnings"
        try:
            mline = c04.Enc(prog).line()
        except (KeyError, ValueError):
            mline = None
        texts = slicegen.render(prog)
        if rng.random() < 0.25:
            # a file that declares a module and nothing else (with attributes, or with its definitions compiled out): it is still a file of the program
            texts.insert(rng.randrange(len(texts) + 1), rng.choice(["module Only%d\n", "[[allow(All)]]\nmodule Only%d\n", "module Only%d\n#if NEVER\nstruct Gone {}\n#endif\n", "[x::m] module M\n// %d\n"]) % i)
        progs.append((texts, fam, mline))
    # runs: the baseline twice (fresh processes), every permutation of up to 4 files (sampled beyond), source/reference assignments
    lines, index = [], []
    for pi, pr in enumerate(progs):
        texts, fam = pr[0], pr[1]
        k = len(texts)
        names = pr[3] if len(pr) > 3 else ["f%d.slice" % j for j in range(k)]
        perms = list(itertools.permutations(range(k)))
        if len(perms) > 6:
            perms = [perms[0]] + rng.sample(perms[1:], 5)
        roles_list = [tuple("S" for _ in range(k))]
        for _ in range(2):
            roles = tuple(rng.choice("SR") for _ in range(k))
            if "S" in roles and roles not in roles_list:
                roles_list.append(roles)
        variants = [(perms[0], roles_list[0])] * 4 + [(p, roles_list[0]) for p in perms[1:]] + [(rng.choice(perms), r) for r in roles_list[1:]]
        for vi, (perm, roles) in enumerate(variants):
            files = [(roles[j], names[j], texts[j]) for j in perm]
            lines.append(dc.run_line(False, ["--diagnostic-format", "json"], [("gen-ok-0", None, None)], files))
            index.append((pi, vi, perm, roles))
    o = dc.run_all(lines, chunk=12)
    ck.stream("orders", description="multi-file programs (valid; with one injected rule violation; with a deprecated definition used elsewhere; one struct per file forming containment cycles with tails leading in and finite types leading out; files that declare only a module; several files of one module using deprecated definitions and broken links at module scope and inside definitions with file-level and element-level allow attributes, base names repeated across directories; definitions sharing a scoped name across files; a definition sharing its scoped "
              "name with a module declared in another file, several such collisions and redefinitions at once; re-opened modules; preprocessor symbols defined or undefined in one file and tested in another) run through the real binary with a capturing generator: the same command line four times in fresh processes, every permutation of up to 4 files, "
              "and source/reference re-assignments. Compared: stderr and generator request byte for byte between the two identical runs; acceptance (exit status) across all variants and against the rule model's verdict; "
              "for accepted programs every file's decoded request content and the multiset of warnings across all variants.")
    runs = {}
    reqs, reqidx = [], []
    for (pi, vi, perm, roles), line, oo in zip(index, lines, o):
        r = dc.parse_run(oo)
        runs.setdefault(pi, []).append((vi, perm, roles, r, oo))
        if r and r["gens"].get("gen-ok-0", (0, "none"))[1] not in ("none", ""):
            reqs.append("req " + r["gens"]["gen-ok-0"][1])
            reqidx.append((pi, vi))
    dec = dict(zip(reqidx, core.run_model("request", reqs, chunk=100)))
    mverdicts = core.run_model("validate", [p[2] for p in progs if p[2]], chunk=500)
    mv = dict(zip([i for i, p in enumerate(progs) if p[2]], mverdicts))
    for pi, pr in enumerate(progs):
        texts, fam, mline = pr[0], pr[1], pr[2]
        names = pr[3] if len(pr) > 3 else ["f%d.slice" % j for j in range(len(texts))]
        case = "\n--\n".join("[%s]\n%s" % (names[j], t) for j, t in enumerate(texts))
        ck.count("orders", case + fam, kind=fam.split(":")[0] if not fam.startswith("collision") else fam)
        rs = runs.get(pi, [])
        if any(r is None or r["exit"] not in ("0", "1") for _, _, _, r, _ in rs):
            bad = next(oo for _, _, _, r, oo in rs if r is None or r["exit"] not in ("0", "1"))
            ck.violation("orders", "crash", case, "a verdict in every order", bad[:300], signature={"family": fam.split(":")[0]})
            continue
        a = rs[0][3]
        for (_, _, _, b, _) in rs[1:4]:
            if a["stderr"] != b["stderr"] or a["gens"] != b["gens"] or a["exit"] != b["exit"]:
                ck.violation("orders", "not-reproducible", case, "byte-identical diagnostics and request in four runs of the same command", "they differ:\n%s\n-- versus --\n%s" % (
                    a["stderr"].decode("utf-8", "replace")[:300], b["stderr"].decode("utf-8", "replace")[:300]))
                break
        exits = {(perm, roles): r["exit"] for _, perm, roles, r, _ in rs}
        if len(set(exits.values())) > 1:
            acc = [k for k, v in exits.items() if v == "0"][0]
            rej = [k for k, v in exits.items() if v == "1"][0]
            err = next(r["stderr"] for _, perm, roles, r, _ in rs if (perm, roles) == rej)
            ck.violation("orders", "acceptance-depends-on-order", case, "the same verdict for every order and role assignment",
                         "accepted with order %s roles %s, rejected with order %s roles %s: %s" % (acc[0], "".join(acc[1]), rej[0], "".join(rej[1]), err.decode("utf-8", "replace")[:300]),
                         signature={"family": fam})
            continue
        accepted = rs[0][3]["exit"] == "0"
        if pi in mv and not fam.startswith("collision"):
            out_of_domain = any(c in rs[0][3]["stderr"] for c in (b"E032", b"E033", b"E017", b"E019"))
            if (mv[pi] == "ok") != accepted and not out_of_domain:
                ck.violation("orders", "verdict-differs-from-model", case, "accepted" if mv[pi] == "ok" else "rejected (%s)" % mv[pi], "accepted" if accepted else "rejected", kind="correspondence")
        if not accepted:
            continue
        base_tab, base_warn = None, None
        for vi, perm, roles, r, _ in rs:
            tab = file_tables(dec.get((pi, vi), "missing"))
            if tab is None:
                ck.violation("orders", "request-not-decodable", case, "a decodable request", dec.get((pi, vi), "no request")[:200])
                break
            files, srcs, refs = tab
            want_s = [hx(names[j]) for j in perm if roles[j] == "S"]
            want_r = [hx(names[j]) for j in perm if roles[j] == "R"]
            if ["s:" + x for x in want_s] != srcs or ["s:" + x for x in want_r] != refs:
                ck.violation("orders", "file-order-not-preserved", case, "sources %s then references %s" % (want_s, want_r), "%s / %s" % (srcs, refs))
            warns = sorted((d.get("error_code"), d.get("message"), str(d.get("span"))) for d in dc.json_diags(r["stderr"]) if d.get("severity") == "warning")
            if base_tab is None:
                base_tab, base_warn = files, warns
                continue
            if files != base_tab:
                diff = next(p for p in set(files) | set(base_tab) if files.get(p) != base_tab.get(p))
                ck.violation("orders", "content-depends-on-order", case, "the same compiled content of every file in every order", "file %s differs with order %s roles %s" % (bytes.fromhex(diff[2:]).decode(), perm, "".join(roles)))
                break
            if warns != base_warn:
                ck.violation("orders", "warnings-depend-on-order", case, "the same set of warnings", "%s vs %s (order %s roles %s)" % (base_warn[:3], warns[:3], perm, "".join(roles)))
                break
    ck.samples.append({"stream": "orders", "case": lines[0][:300], "impl": o[0][:300], "model": (mverdicts or ["-"])[0]})
    ck.extra["rule"] = "%d programs, %d runs of the binary; distinct by program text" % (n, len(lines))
