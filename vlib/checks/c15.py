"""C15: results are reproducible and do not depend on the order of the inputs."""
import itertools, random
from .. import core, slicegen, driver_common as dc
from ..front_common import hx, parse_diags
from . import c04

ALLOWED_AXIOMS = ()
NEEDS_SLICEC = True
COMPONENT = "validate"


def collision_program(rng):
    """definitions sharing a scoped name across files, and a definition sharing its scoped name with a module of another file"""
    kind = rng.choice(["def-def", "def-module", "def-module-deeper", "member-module", "member-module", "reopened-module", "same-text-other-module", "same-text-other-module", "several-collisions", "several-redefinitions", "preprocessor-symbols", "preprocessor-undef"])
    if kind == "member-module":
        # a field, enumerator, operation, parameter or return member that shares its scoped name with a module of another file, and doc links that name it
        a = ("module A\ninterface I {\n    /// Like {@link I::op} and {@link op}.\n    op(p: int32) -> (r: bool, q: bool)\n    other()\n}\n"
             "/// Uses {@link I::op}, {@link S::f} and {@link E::P}; see also {@link E::Q}.\n/// @see I::other\nstruct S { f: int32 }\nenum E { P, Q(x: int32) }\n")
        path = rng.choice(["I::op", "I::op", "S::f", "E::P", "E::Q", "I::op::p", "I::op::r", "E::Q::x", "I::other"])
        b = "module A::%s\nstruct Inside {}\n" % path
        c = rng.choice(["module A\n/// From afar: {@link I::op}, {@link A::S::f}, {@link ::A::E::P}.\nstruct Far {}\n", "module Z\n/// {@link A::I::op} {@link A::E::Q} {@link A::I::other}\ncustom Zed\n"])
        return rng.choice([[a, b], [a, b, c], [b, c, a]]), kind + ":" + path.replace("::", ".")
    if kind == "same-text-other-module":
        # the same words mean different things in different modules: what is checked for one file says nothing about the other
        form = rng.choice(["key", "key", "nested-key", "alias-key", "tagged", "optional"])
        if form in ("key", "nested-key", "alias-key"):
            use = {"key": "Dictionary<Key, int32>", "nested-key": "Sequence<Dictionary<Key, Sequence<bool>>>", "alias-key": "Dictionary<KeyAlias, string>"}[form]
            good = "module Good\ncompact struct Key { a: int32 }\ntypealias KeyAlias = Key\nstruct U { d: %s }\ninterface I { op() -> %s }\n" % (use, use)
            bad = "module Bad\nstruct Key { a: int32 }\ntypealias KeyAlias = Key\nstruct U { d: %s }\n" % use
        elif form == "tagged":
            good = "module Good\ntypealias T = int32?\nstruct U { tag(1) a: int32? }\n"
            bad = "module Bad\nstruct U { tag(1) a: int32 }\n"
        else:
            good = "module Good\ncustom Key\nstruct U { d: Dictionary<Key, bool> }\n"
            bad = "module Bad\nstruct Key {}\nstruct U { d: Dictionary<Key, bool> }\n"
        third = rng.choice([[], ["module Other\nstruct Far { d: Dictionary<int32, int32> }\n"]])
        return rng.choice([[good, bad], [bad, good], [good, good.replace("Good", "Good2"), bad]]) + third, kind + ":" + form
    if kind == "several-collisions":
        names = rng.sample(["Alpha", "Bravo", "Charlie", "Delta", "Echo", "Foxtrot"], rng.choice([3, 4, 5]))
        top = "module Top\n" + "\n".join("struct %s {}" % n for n in names) + "\n"
        return [top] + ["module Top::%s\nstruct In%s {}\n" % (n, n) for n in names], kind
    if kind == "several-redefinitions":
        names = rng.sample(["Alpha", "Bravo", "Charlie", "Delta", "Echo"], 3)
        return ["module Top\n" + "\n".join("struct %s {}" % n for n in names) + "\n", "module Top\n" + "\n".join("custom %s" % n for n in reversed(names)) + "\n"], kind
    if kind == "preprocessor-symbols":
        # a symbol defined in one file must not be visible in another
        a = "#define FLAG\nmodule A\nstruct One {}\n"
        b = "module A\nstruct Two {\n#if FLAG\n    extra: int32\n#endif\n    id: int32\n}\n"
        c = "#if FLAG\nmodule A\nstruct OnlyWithFlag {}\n#else\nmodule A\nstruct OnlyWithoutFlag {}\n#endif\n"
        return rng.choice([[a, b], [a, b, c], [b, a, c]]), kind
    if kind == "preprocessor-undef":
        a = "#define FLAG\n#undef OTHER\nmodule A\nstruct One {}\n"
        b = "#define OTHER\nmodule A\n#if OTHER && !FLAG\nstruct Two { id: int32 }\n#else\nstruct Two { id: int32, more: string }\n#endif\n"
        return [a, b], kind
    if kind == "def-def":
        a = "module A\nstruct X { a: int32 }\n"
        b = "module A\n%s\n" % rng.choice(["struct X {}", "custom X", "enum X { P }", "interface X {}", "typealias X = int32"])
        return [a, b, "module C\nstruct Other {}\n"], kind
    if kind == "def-module":
        a = "module A::B\nstruct Inner { a: int32 }\n"
        b = "module A\n%s\n" % rng.choice(["struct B {}", "custom B", "enum B { P }", "interface B {}", "typealias B = int32"])
        extra = rng.choice(["module A\nstruct UsesB { b: B }\n", "module Z\nstruct Far {}\n"])
        return [a, b, extra], kind
    if kind == "def-module-deeper":
        a = "module A::B::C\nstruct Inner {}\n"
        b = "module A::B\nstruct C {}\n"
        return [a, b], kind
    # links that name the re-opened module: whatever is said about them is said the same way wherever the module was opened first
    a = "module A\n/// In {@link A} and {@link ::A}; see {@link A::B}.\n/// @see A\nstruct One {}\n"
    b = "module A\n/// {@link A}\nstruct Two { o: One }\n"
    c = "module A::B\n/// {@link A::B} {@link B} {@link A}\nstruct Three { o: One, t: A::Two }\n"
    return [a, b, c] + ([rng.choice(["module A\ncustom Four\n", "module A::B\ncustom Five\n"])] if rng.random() < 0.5 else []), kind


def lint_program(rng):
    """several files of one module: deprecated definitions declared in one, used at module scope (aliases) and inside definitions of the others;
    each file may carry a file-level allow, each use its own; base names repeat across directories"""
    k = rng.choice([2, 3, 3, 4])
    ndep = rng.choice([1, 2])
    decl = "module Lib\n" + "".join("[deprecated] %s\n" % rng.choice(["struct Old%d {}", "custom Old%d", "enum Old%d { A }"]).replace("%d", str(i)) for i in range(ndep)) + "struct Fine {}\n"
    texts = [decl]
    for j in range(1, k):
        fa = rng.choice(["", "", "[[allow(Deprecated)]]\n", "[[allow(All)]]\n", "[[allow(BrokenDocLink)]]\n"])
        body = []
        for u in range(rng.choice([1, 2, 3])):
            tgt = "Old%d" % rng.randrange(ndep)
            al = rng.choice(["", "", "[allow(Deprecated)] ", "[allow(All)] "])
            form = rng.choice(["alias", "alias", "field", "param", "doc", "doc", "tagdoc"])
            if form == "alias":
                body.append("%stypealias A%d_%d = %s" % (al, j, u, tgt))
            elif form == "field":
                body.append("%sstruct S%d_%d { a: %s, b: Sequence<%s> }" % (al, j, u, tgt, tgt))
            elif form == "param":
                body.append("%sinterface I%d_%d { op(p: %s) -> %s }" % (al, j, u, tgt, tgt))
            elif form == "tagdoc":
                # a tag that does not fit its element: reported by the validators, after everything else
                body.append("/// @param nosuch%d: x\n%sstruct P%d_%d {}" % (u, al.replace("Deprecated", "IncorrectDocComment"), j, u))
            else:
                body.append("/// See {@link Missing%d}, {@link Lib} and {@link ::Lib}.\n%sstruct D%d_%d {}" % (u, al.replace("Deprecated", "BrokenDocLink"), j, u))
        texts.append(fa + "module Lib\n" + "\n".join(body) + "\n")
    base = rng.choice([["Types.slice"] * k, ["Types.slice", "Types.slice"] + ["Main.slice"] * (k - 2), ["f%d.slice" % j for j in range(k)]])
    names = ["d%d/%s" % (j, b) for j, b in enumerate(base)]
    if rng.random() < 0.4:
        at = rng.randrange(len(texts) + 1)
        texts.insert(at, "// no module\n" + rng.choice(["", "// nothing\n", "#if NEVER\nmodule Lib\n#endif\n"]))
        names.insert(at, "d9/Empty.slice")
    return texts, names


def cycle_program(rng):
    """one struct per file: a containment graph with at least one cycle, types that lead into it and finite types it leads out to, fields in random order"""
    n = rng.choice([3, 3, 4])
    while True:
        edges = {(a, b) for a in range(n) for b in range(n) if rng.random() < 0.35}
        # some node reaches itself?
        reach = {a: {b for (x, b) in edges if x == a} for a in range(n)}
        for _ in range(n):
            for a in range(n):
                for b in list(reach[a]):
                    reach[a] |= reach[b]
        if any(a in reach[a] for a in range(n)):
            break
    texts = []
    for a in range(n):
        fields = ["t%d: %s" % (b, rng.choice(["T%d", "T%d", "Sequence<T%d>", "T%d?"]) % b) for b in range(n) if (a, b) in edges] + ["leaf: Leaf%d" % a, "n: int32"]
        rng.shuffle(fields)
        texts.append("module Cyc\nstruct T%d { %s }\nstruct Leaf%d { i: int32 }\n" % (a, ", ".join(fields), a))
    return texts


PRIMS16 = ["bool", "int8", "uint8", "int16", "uint16", "int32", "uint32", "varint32", "varuint32", "int64", "uint64", "varint62", "varuint62", "float32", "float64", "string"]


def cluster_program(rng):
    """one element that repeats several different attributes which may be given once: one report per repeat, the same reports in the same order in every run"""
    forms = {"oneway": ["oneway", "oneway"], "compress": ["compress(Args)", "compress(Return)"], "deprecated": ["deprecated", 'deprecated("again")'],
             "slicedFormat": ["slicedFormat(Args)", "slicedFormat(Return)"]}
    kinds = rng.sample(sorted(forms), rng.choice([2, 3, 3, 4, 4]))
    attrs = [forms[k][0] for k in kinds] + [forms[k][1] for k in rng.sample(kinds, len(kinds))]
    if rng.random() < 0.5:
        rng.shuffle(attrs)
    sep = rng.choice(["", " ", "\n    "])
    a = "module A\ninterface I {\n    %s\n    op(x: int32)\n}\n" % sep.join("[%s]" % x for x in attrs)
    b = "module B\nstruct S { a: int32 }\n"
    return [a, b] if rng.random() < 0.5 else [b, a]


def sc_ident(n, written=True):
    """names 100..115 are the keywords of the primitive types (written with a backslash)"""
    if n >= 100:
        return ("\\" if written else "") + PRIMS16[n - 100]
    return "N%d" % n


def sc_number(ident):
    return 100 + PRIMS16.index(ident) if ident in PRIMS16 else int(ident[1:])


def scoped_program(rng):
    """files of names only (the vocabulary of coq/Sema/Scoped.v): module paths, definitions, members and their members drawn from a small pool so that
    scoped identifiers collide within and across files, also with module paths"""
    pool = list(range(1, rng.choice([5, 6, 8, 14, 30, 30, 60])))        # small pools: collisions everywhere; large ones: mostly accepted programs
    if rng.random() < 0.3:
        pool += [100 + rng.randrange(16) for _ in range(rng.choice([1, 2, 4]))]      # now and then a name that a primitive type's keyword spells
    nm = lambda: rng.choice(pool)
    files = []
    for fid in range(rng.choice([2, 2, 3, 4])):
        if rng.random() < 0.07:
            files.append({"id": fid, "module": None, "defs": []})
            continue
        mod = [nm() for _ in range(rng.choice([1, 1, 2, 2, 3, 4]))]
        defs = []
        for _ in range(rng.choice([1, 1, 2, 3])):
            k = rng.choice("SSEEIIIO")
            if k == "S":
                defs.append(("S", nm(), [nm() for _ in range(rng.choice([0, 1, 2, 3]))]))
            elif k == "E":
                defs.append(("E", nm(), [(nm(), [nm() for _ in range(rng.choice([0, 0, 1, 2]))]) for _ in range(rng.choice([0, 1, 2, 3]))]))
            elif k == "I":
                defs.append(("I", nm(), [(nm(), [nm() for _ in range(rng.choice([0, 1, 2]))], [nm() for _ in range(rng.choice([0, 0, 2, 3]))]) for _ in range(rng.choice([0, 1, 2, 2]))]))
            else:
                defs.append(("O", nm(), rng.choice(["custom", "alias"])))
        files.append({"id": fid, "module": mod, "defs": defs})
    return files


def scoped_render(f):
    """-> (text with one identifier per line, {path: (row, col)}); a file without a module is a comment"""
    if f["module"] is None:
        return "// nothing here\n", {}
    I = sc_ident
    lines, where = ["module " + "::".join(I(n) for n in f["module"])], {}
    def put(text, path):
        lines.append(text)
        where[path] = (len(lines), len(text) - len(text.lstrip()) + 1)       # (an identifier's extent includes its backslash)
    for di, d in enumerate(f["defs"]):
        if d[0] == "S":
            lines.append("struct")
            put(I(d[1]) + " {", (di,))
            for mi, m in enumerate(d[2]):
                put("    %s: int32," % I(m), (di, mi))
            lines.append("}")
        elif d[0] == "E":
            lines.append("unchecked enum")
            put(I(d[1]) + " {", (di,))
            for mi, (m, subs) in enumerate(d[2]):
                put("    %s%s" % (I(m), "(" if subs else ","), (di, mi))
                for xi, x in enumerate(subs):
                    put("        %s: int32," % I(x), (di, mi, xi))
                if subs:
                    lines.append("    ),")
            lines.append("}")
        elif d[0] == "I":
            lines.append("interface")
            put(I(d[1]) + " {", (di,))
            for mi, (m, ps, rs) in enumerate(d[2]):
                put("    %s(" % I(m), (di, mi))
                for xi, x in enumerate(ps):
                    put("        %s: int32," % I(x), (di, mi, xi))
                lines.append("    )" + (" -> (" if rs else ""))
                for xi, x in enumerate(rs):
                    put("        %s: bool," % I(x), (di, mi, len(ps) + xi))
                if rs:
                    lines.append("    )")
            lines.append("}")
        else:
            lines.append("custom" if d[2] == "custom" else "typealias")
            put(I(d[1]) + ("" if d[2] == "custom" else " = int32"), (di,))
    return "\n".join(lines) + "\n", where


def scoped_model_line(files, keys):
    t = [str(len(files))]
    for f in files:
        t += [str(f["id"]), str(-1 if f["module"] is None else len(f["module"]))] + [str(n) for n in (f["module"] or [])] + [str(len(f["defs"]))]
        for d in f["defs"]:
            if d[0] == "S":
                t += ["S", str(d[1]), str(len(d[2]))] + [str(x) for x in d[2]]
            elif d[0] == "E":
                t += ["E", str(d[1]), str(len(d[2]))]
                for m, subs in d[2]:
                    t += [str(m), str(len(subs))] + [str(x) for x in subs]
            elif d[0] == "I":
                t += ["I", str(d[1]), str(len(d[2]))]
                for m, ps, rs in d[2]:
                    t += [str(m), str(len(ps))] + [str(x) for x in ps] + [str(len(rs))] + [str(x) for x in rs]
            else:
                t += ["O", str(d[1])]
    t.append(str(len(keys)))
    for k in keys:
        t += [str(len(k))] + [str(n) for n in k]
    return "scoped " + " ".join(t)


def scoped_keys(rng, files):
    ks = []
    for f in files:
        if f["module"] is None:
            continue
        mp = f["module"]
        ks.append(tuple(mp))
        for d in f["defs"]:
            ks.append(tuple(mp + [d[1]]))
            if d[0] == "S":
                ks += [tuple(mp + [d[1], m]) for m in d[2]]
            elif d[0] == "E":
                for m, subs in d[2]:
                    ks.append(tuple(mp + [d[1], m]))
                    ks += [tuple(mp + [d[1], m, x]) for x in subs]
            elif d[0] == "I":
                for m, ps, rs in d[2]:
                    ks.append(tuple(mp + [d[1], m]))
                    ks += [tuple(mp + [d[1], m, x]) for x in ps + rs]
    ks = sorted(set(ks))
    rng.shuffle(ks)
    return ks[:14] + [tuple(rng.choice([1, 2, 3, 9]) for _ in range(rng.choice([1, 2, 3]))), (100 + rng.randrange(16),)]


def scoped_stream(ck):
    """the lookup table and the redefinition pass of the real front end against coq/Sema/Scoped.v, in two orders of the files"""
    import re
    rng = ck.rng
    n = 400 if ck.tier == "quick" else 4000
    ck.stream("scoped-names", description="programs of names only (2-4 files; module paths of 1-4 segments, structs, enums with enumerator fields, interfaces with operations, parameters and return members, "
              "custom types and aliases; all names from a pool of 4-7, so that scoped identifiers collide within and across files and with module paths), compiled in the order given and in a random other order: "
              "the identifiers named by the E010 reports equal the model's redefinition report (coq/Sema/Scoped.v), the same in both orders; for accepted programs Ast::find_node of every scoped identifier of the "
              "program finds what the model's table holds (a module of that name, or the entity at that place of that file), the same in both orders")
    progs, ilines, mlines = [], [], []
    for _ in range(n):
        files = scoped_program(rng)
        keys = scoped_keys(rng, files)
        rendered = {f["id"]: scoped_render(f) for f in files}
        orders = [list(range(len(files)))]
        perm = orders[0][:]
        rng.shuffle(perm)
        orders.append(perm)
        for order in orders:
            fs = [files[j] for j in order]
            ilines.append("lookup - " + " ".join(hx(rendered[f["id"]][0]) for f in fs) + " -- " + " ".join(hx("::".join(sc_ident(x, False) for x in k)) for k in keys))
            mlines.append(scoped_model_line(fs, keys))
        progs.append((files, keys, rendered, orders))
    o = core.run_impl("lookup", ilines, chunk=200, timeout=120)
    m = core.run_model("validate", mlines, chunk=500)
    for pi, (files, keys, rendered, orders) in enumerate(progs):
        case = "\n--\n".join("[file %d]\n%s" % (f["id"], rendered[f["id"]][0]) for f in files)
        ck.count("scoped-names", case, kind="%d files, %s" % (len(files), "accepted" if m[2 * pi].startswith("ok") else "rejected"))
        seen = []
        for oi, order in enumerate(orders):
            oo, mo = o[2 * pi + oi], m[2 * pi + oi]
            if " || " not in oo or " | " not in mo:
                ck.violation("scoped-names", "crash", case, mo[:200], oo[:300], signature={"order": oi})
                break
            dtxt, ltxt = oo.split(" || ", 1)
            dl = parse_diags(dtxt)
            if dl is None:
                ck.violation("scoped-names", "crash", case, mo[:200], oo[:300], signature={"order": oi})
                break
            other = [d for d in dl if d["code"] != "E010" and d["level"] == "Error"]
            real_report = sorted(sc_number(re.search(r"redefinition of '(\w+)'", d["msg"]).group(1)) for d in dl if d["code"] == "E010")
            mrep, mlook = mo.split(" | ", 1)
            model_report = [] if mrep == "ok" else [int(x) for x in mrep.split()]
            if other:
                ck.violation("scoped-names", "unexpected-error", case, "only redefinition errors, if any", "%s %s" % (other[0]["code"], other[0]["msg"]), kind="correspondence")
                break
            if real_report != model_report:
                ck.violation("scoped-names", "redefinition-report-differs", case, "redefinitions of %s (order %s)" % (model_report, order), "redefinitions of %s" % real_report, kind="correspondence",
                             signature={"missing": len(real_report) < len(model_report)})
                break
            # lookups, translated to (file id, path)
            rl = []
            for item in ltxt.split(" ; "):
                t = item.split(" ")
                if t[0] == "module":
                    rl.append("module " + ".".join(str(sc_number(x)) for x in t[1].split("::")))
                elif t[0] == "primitive":
                    rl.append("primitive %d" % sc_number(t[1]))
                elif t[0] == "entity":
                    fid = order[int(t[1].rsplit("-", 1)[1])]
                    row, col = (int(x) for x in t[2].split(":"))
                    path = [p for p, rc in rendered[fid][1].items() if rc == (row, col)]
                    rl.append("entity %d %s" % (fid, ".".join(str(x) for x in path[0])) if path else "entity %d at %d:%d ?" % (fid, row, col))
                else:
                    rl.append(t[0])
            ml = mlook.split(" ; ")
            if rl != ml and not model_report:
                k = next(i for i in range(min(len(rl), len(ml))) if rl[i] != ml[i]) if len(rl) == len(ml) else 0
                ck.violation("scoped-names", "lookup-differs", case, "%s -> %s (order %s)" % ("::".join(sc_ident(x, False) for x in keys[k]), ml[k], order), rl[k] if k < len(rl) else "?", kind="correspondence")
                break
            seen.append((real_report, rl))
        else:
            (r0, l0), (r1, l1) = seen
            if (r0 == []) != (r1 == []):
                ck.violation("scoped-names", "acceptance-depends-on-order", case, "the same verdict in both orders", "order %s: %s; order %s: %s" % (orders[0], r0, orders[1], r1))
            elif not r0 and l0 != l1:
                k = next(i for i in range(len(l0)) if l0[i] != l1[i])
                ck.violation("scoped-names", "lookup-depends-on-order", case, "%s found the same in both orders" % "::".join(sc_ident(x, False) for x in keys[k]), "%s with order %s, %s with order %s" % (l0[k], orders[0], l1[k], orders[1]))
    ck.samples.append({"stream": "scoped-names", "case": ilines[0][:300], "impl": o[0][:300], "model": m[0][:300]})


def file_tables(mo):
    """decoded request -> ({path: file sexp text}, sources in order, references in order)"""
    from ..front_common import parse_sexp
    if not mo.startswith("ok "):
        return None
    _, left, idsok, sx = mo.split(" ", 3)
    req = parse_sexp(sx)[0]
    out = {}
    for lst in (req[2], req[3]):
        for f in lst[1:]:
            out[f[1]] = repr(f[2:])
    return out, [f[1] for f in req[2][1:]], [f[1] for f in req[3][1:]]


def run(ck):
    rng = ck.rng
    n = 160 if ck.tier == "quick" else 1600
    progs = []
    for i in range(n):
        r = rng.random()
        if r < 0.25:
            texts, fam = collision_program(rng)
            progs.append((texts, "collision:" + fam, None))
            continue
        if r < 0.40:
            texts, names = lint_program(rng)
            progs.append((texts, "lints", None, names))
            continue
        if r < 0.48:
            progs.append((cycle_program(rng), "cycles", None))
            continue
        if r < 0.54:
            progs.append((cluster_program(rng), "clusters", None))
            continue
        g = slicegen.Gen(random.Random(rng.randrange(1 << 60)), nfiles=rng.choice([2, 3, 3, 4]), depth=2, foreign_attrs=False)
        prog = g.program()
        fam = "valid"
        if r < 0.65:
            nm = c04.inject(rng, prog)
            fam = "injected:%s" % nm if nm else "valid"
        elif r < 0.8:
            # warnings: a deprecated definition used from another file
            d = prog["files"][0]["defs"][0]
            d["attrs"] = d["attrs"] + [("deprecated", ["old"])]
            fam = "warnings"
        try:
            mline = c04.Enc(prog).line()
        except (KeyError, ValueError):
            mline = None
        texts = slicegen.render(prog)
        if rng.random() < 0.25:
            # a file that declares a module and nothing else (with attributes, or with its definitions compiled out): it is still a file of the program
            texts.insert(rng.randrange(len(texts) + 1), rng.choice(["module Only%d\n", "[[allow(All)]]\nmodule Only%d\n", "module Only%d\n#if NEVER\nstruct Gone {}\n#endif\n", "[x::m] module M\n// %d\n"]) % i)
        if rng.random() < 0.3:
            # a file with no module at all (empty, a comment, everything compiled out): nothing of it is compiled, and it changes nothing for the others wherever it is listed
            texts.insert(rng.randrange(len(texts) + 1), "// no module" + rng.choice(["", "\n", "\n// nothing here\n", "\n#if NEVER\nmodule Gone\nstruct G {}\n#endif\n", "\n\n\n"]))
        progs.append((texts, fam, mline))
    # runs: the baseline twice (fresh processes), every permutation of up to 4 files (sampled beyond), source/reference assignments
    lines, index, twice = [], [], []
    for pi, pr in enumerate(progs):
        texts, fam = pr[0], pr[1]
        k = len(texts)
        names = pr[3] if len(pr) > 3 else ["f%d.slice" % j for j in range(k)]
        perms = list(itertools.permutations(range(k)))
        if len(perms) > 6:
            perms = [perms[0]] + rng.sample(perms[1:], 5)
        roles_list = [tuple("S" for _ in range(k))]
        for _ in range(2):
            roles = tuple(rng.choice("SR") for _ in range(k))
            if "S" in roles and roles not in roles_list:
                roles_list.append(roles)
        if rng.random() < 0.3:
            roles_list.append(tuple("R" for _ in range(k)))      # no source at all: every file a reference, compiled all the same
        variants = [(perms[0], roles_list[0])] * 4 + [(p, roles_list[0]) for p in perms[1:]] + [(rng.choice(perms), r) for r in roles_list[1:]]
        for vi, (perm, roles) in enumerate(variants):
            files = [(roles[j], names[j], texts[j]) for j in perm]
            lines.append(dc.run_line(False, ["--diagnostic-format", "json"], [("gen-ok-0", None, None)], files))
            index.append((pi, vi, perm, roles))
        if k >= 2 and rng.random() < 0.25:
            # a file listed twice, the second time anywhere in the list: one warning about it wherever it stands, everything else as before
            twice.append((pi, [(rng.randrange(k), pos) for pos in range(k + 1)]))
    o = dc.run_all(lines, chunk=12)
    ck.stream("orders", description="multi-file programs (valid; with one injected rule violation; with a deprecated definition used elsewhere; one operation that repeats two to four different once-only attributes; one struct per file forming containment cycles with tails leading in and finite types leading out; files that declare only a module, files with no module at all; several files of one module using deprecated definitions and broken links at module scope and inside definitions with file-level and element-level allow attributes, base names repeated across directories; definitions sharing a scoped name across files; a definition sharing its scoped "
              "name with a module declared in another file, members (fields, enumerators, operations, parameters) doing so with doc links that name them, several such collisions and redefinitions at once; re-opened modules; preprocessor symbols defined or undefined in one file and tested in another) run through the real binary with a capturing generator: the same command line four times in fresh processes, every permutation of up to 4 files, "
              "and source/reference re-assignments (also: every file a reference). Compared: stderr and generator request byte for byte between the two identical runs; acceptance (exit status) across all variants and against the rule model's verdict; "
              "for accepted programs every file's decoded request content and the multiset of warnings across all variants.")
    runs = {}
    reqs, reqidx = [], []
    for (pi, vi, perm, roles), line, oo in zip(index, lines, o):
        r = dc.parse_run(oo)
        runs.setdefault(pi, []).append((vi, perm, roles, r, oo))
        if r and r["gens"].get("gen-ok-0", (0, "none"))[1] not in ("none", ""):
            reqs.append("req " + r["gens"]["gen-ok-0"][1])
            reqidx.append((pi, vi))
    dec = dict(zip(reqidx, core.run_model("request", reqs, chunk=100)))
    mverdicts = core.run_model("validate", [p[2] for p in progs if p[2]], chunk=500)
    mv = dict(zip([i for i, p in enumerate(progs) if p[2]], mverdicts))
    for pi, pr in enumerate(progs):
        texts, fam, mline = pr[0], pr[1], pr[2]
        names = pr[3] if len(pr) > 3 else ["f%d.slice" % j for j in range(len(texts))]
        case = "\n--\n".join("[%s]\n%s" % (names[j], t) for j, t in enumerate(texts))
        ck.count("orders", case + fam, kind=fam.split(":")[0] if not fam.startswith("collision") else fam)
        rs = runs.get(pi, [])
        if any(r is None or r["exit"] not in ("0", "1") for _, _, _, r, _ in rs):
            bad = next(oo for _, _, _, r, oo in rs if r is None or r["exit"] not in ("0", "1"))
            ck.violation("orders", "crash", case, "a verdict in every order", bad[:300], signature={"family": fam.split(":")[0]})
            continue
        a = rs[0][3]
        for (_, _, _, b, _) in rs[1:4]:
            if a["stderr"] != b["stderr"] or a["gens"] != b["gens"] or a["exit"] != b["exit"]:
                ck.violation("orders", "not-reproducible", case, "byte-identical diagnostics and request in four runs of the same command", "they differ:\n%s\n-- versus --\n%s" % (
                    a["stderr"].decode("utf-8", "replace")[:300], b["stderr"].decode("utf-8", "replace")[:300]))
                break
        exits = {(perm, roles): r["exit"] for _, perm, roles, r, _ in rs}
        if len(set(exits.values())) > 1:
            acc = [k for k, v in exits.items() if v == "0"][0]
            rej = [k for k, v in exits.items() if v == "1"][0]
            err = next(r["stderr"] for _, perm, roles, r, _ in rs if (perm, roles) == rej)
            ck.violation("orders", "acceptance-depends-on-order", case, "the same verdict for every order and role assignment",
                         "accepted with order %s roles %s, rejected with order %s roles %s: %s" % (acc[0], "".join(acc[1]), rej[0], "".join(rej[1]), err.decode("utf-8", "replace")[:300]),
                         signature={"family": fam})
            continue
        accepted = rs[0][3]["exit"] == "0"
        if pi in mv and not fam.startswith("collision"):
            out_of_domain = any(c in rs[0][3]["stderr"] for c in (b"E032", b"E033", b"E017", b"E019"))
            if (mv[pi] == "ok") != accepted and not out_of_domain:
                ck.violation("orders", "verdict-differs-from-model", case, "accepted" if mv[pi] == "ok" else "rejected (%s)" % mv[pi], "accepted" if accepted else "rejected", kind="correspondence")
        if not accepted:
            continue
        base_tab, base_warn = None, None
        for vi, perm, roles, r, _ in rs:
            tab = file_tables(dec.get((pi, vi), "missing"))
            if tab is None:
                ck.violation("orders", "request-not-decodable", case, "a decodable request", dec.get((pi, vi), "no request")[:200])
                break
            files, srcs, refs = tab
            want_s = [hx(names[j]) for j in perm if roles[j] == "S" and not texts[j].startswith("// no module")]
            want_r = [hx(names[j]) for j in perm if roles[j] == "R" and not texts[j].startswith("// no module")]
            if ["s:" + x for x in want_s] != srcs or ["s:" + x for x in want_r] != refs:
                ck.violation("orders", "file-order-not-preserved", case, "sources %s then references %s" % (want_s, want_r), "%s / %s" % (srcs, refs))
            warns = sorted((d.get("error_code"), d.get("message"), str(d.get("span")), str(d.get("notes"))) for d in dc.json_diags(r["stderr"]) if d.get("severity") == "warning")
            if base_tab is None:
                base_tab, base_warn = files, warns
                continue
            if files != base_tab:
                diff = next(p for p in set(files) | set(base_tab) if files.get(p) != base_tab.get(p))
                ck.violation("orders", "content-depends-on-order", case, "the same compiled content of every file in every order", "file %s differs with order %s roles %s" % (bytes.fromhex(diff[2:]).decode(), perm, "".join(roles)))
                break
            if warns != base_warn:
                ck.violation("orders", "warnings-depend-on-order", case, "the same set of warnings", "%s vs %s (order %s roles %s)" % (base_warn[:3], warns[:3], perm, "".join(roles)))
                break
    ck.samples.append({"stream": "orders", "case": lines[0][:300], "impl": o[0][:300], "model": (mverdicts or ["-"])[0]})
    # a source listed twice
    tlines, tmeta = [], []
    for pi, places in twice:
        pr = progs[pi]
        texts = pr[0]
        names = pr[3] if len(pr) > 3 else ["f%d.slice" % j for j in range(len(texts))]
        for j, pos in places:
            order = list(range(len(texts)))
            order.insert(pos, j)
            tlines.append(dc.run_line(False, ["--diagnostic-format", "json"], [("gen-ok-0", None, None)], [("S", names[q], texts[q]) for q in order]))
            tmeta.append((pi, j, pos))
    ot = dc.run_all(tlines, chunk=12)
    ck.stream("listed-twice", description="programs of the orders stream with one source listed a second time at every position of the list: the same verdict wherever the repeat stands, exactly one DuplicateFile warning naming that file, and for accepted programs the same other warnings")
    base = {}
    for (pi, j, pos), line, oo in zip(tmeta, tlines, ot):
        ck.count("listed-twice", line, kind="position %d" % pos)
        r = dc.parse_run(oo)
        pr = progs[pi]
        case = "file %d listed again at position %d\n" % (j, pos) + "\n--\n".join(pr[0])
        if r is None or r["exit"] not in ("0", "1"):
            ck.violation("listed-twice", "crash", case, "a verdict", oo[:200])
            continue
        ds = dc.json_diags(r["stderr"])
        dup = [d for d in ds if d.get("error_code") == "DuplicateFile"]
        rest = sorted((d.get("error_code"), d.get("message"), str(d.get("span"))) for d in ds if d.get("error_code") != "DuplicateFile")
        key = (pi, j)
        if len(dup) != 1:
            ck.violation("listed-twice", "duplicate-not-reported-once", case, "one DuplicateFile warning", "%d; %s" % (len(dup), [d.get("error_code") for d in ds][:8]), signature={"position": "adjacent" if pos in (j, j + 1) else "apart"})
        if r["exit"] != "0":
            rest = []          # a rejected program: the property asks for the same verdict, not for the same reports
        if key not in base:
            base[key] = (r["exit"], rest, case)
        elif base[key][:2] != (r["exit"], rest):
            ck.violation("listed-twice", "result-depends-on-where-the-repeat-stands", case, "exit %s, %s" % (base[key][0], base[key][1][:3]), "exit %s, %s" % (r["exit"], rest[:3]), signature={"position": "adjacent" if pos in (j, j + 1) else "apart"})
    scoped_stream(ck)
    ck.extra["rule"] = "%d programs, %d runs of the binary; distinct by program text" % (n, len(lines))
