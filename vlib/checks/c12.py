"""C12: output targets as append-only log; input sources."""
import itertools
from .. import core

ALLOWED_AXIOMS = ()
COMPONENT = "buffer"


def hexs(bs):
    return bytes(bs).hex() if bs else "-"


def alphabet():
    ops = [("wb",)]
    ops += [("w", k) for k in range(4)]
    ops += [("rs", k) for k in range(4)]
    ops += [("wr", r, k) for r in range(2) for k in range(4)]
    return ops


def render(ops):
    out = []
    for i, o in enumerate(ops):
        base = 0x10 * (i + 1)
        if o[0] == "wb":
            out.append("wb %02x" % base)
        elif o[0] == "w":
            out.append("w " + hexs([base + j for j in range(o[1])]))
        elif o[0] == "rs":
            out.append("rs %d" % o[1])
        else:
            out.append("wr %d %s" % (o[1], hexs([base + 8 + j for j in range(o[2])])))
    return " ; ".join(out)


def run(ck):
    rng = ck.rng
    L = 4 if ck.tier == "quick" else 5
    alpha = alphabet()
    cases = []
    caps = range(5)
    for hist in itertools.product(alpha, repeat=L):
        # a fill of reservation r is only interesting if some reserve precedes; keep everything (exhaustive)
        h = render(hist)
        if ck.tier == "quick":
            for cap in caps:
                cases.append("slice %s %s" % (hexs([0xA0 + i for i in range(cap)]), h))
        else:
            for cap in caps:
                cases.append("slice %s %s" % (hexs([0xA0 + i for i in range(cap)]), h))
        cases.append("vec - " + h)
        for spare in (1, 2, 5):
            cases.append("vec -+%d %s" % (spare, h))       # the caller's vector has spare capacity
    n_exh = len(cases)
    # input sources: all read/peek sequences
    ralpha = ["p1", "r1"] + ["pk %d" % k for k in range(4)] + ["rk %d" % k for k in range(4)]
    for hist in itertools.product(ralpha, repeat=L):
        for n in range(5):
            cases.append("src %s %s" % (hexs([0x31 + i for i in range(n)]), " ; ".join(hist)))
    n_src = len(cases) - n_exh
    # requests near the top of the address space, after some bytes were read: refused like any request beyond the end (the model is given a large count it can hold)
    HUGE = {"pk 18446744073709551615": "pk 5001", "pk 18446744073709551614": "pk 5000", "rk 18446744073709551614": "rk 5000", "pk 9223372036854775808": "pk 5002", "rk 9223372036854775808": "rk 5002"}
    huge_cases = []
    for pre in itertools.product(["r1", "rk 2", "p1", "pk 1"], repeat=2):
        for hg in HUGE:
            for post in ("r1", "pk 2", "rk 3"):
                for nlen in (0, 1, 3, 4):
                    huge_cases.append("src %s %s" % (hexs([0x31 + i for i in range(nlen)]), " ; ".join(list(pre) + [hg, post])))
    cases += huge_cases
    # random long histories, sizes up to 4 KiB
    nrand = 300 if ck.tier == "quick" else 3000
    for _ in range(nrand):
        nops = rng.randrange(1, 201)
        cap = rng.choice([0, 1, 16, 255, 256, 1000, 4096])
        ops, nres = [], 0
        for i in range(nops):
            k = rng.choice([0, 1, 2, 3, 7, 64, rng.randrange(0, 300)])
            c = rng.random()
            data = hexs([rng.randrange(256) for _ in range(k)])
            if c < 0.2:
                ops.append("wb %02x" % rng.randrange(256))
            elif c < 0.5:
                ops.append("w " + data)
            elif c < 0.7:
                ops.append("rs %d" % k); nres += 1
            else:
                ops.append("wr %d %s" % (rng.randrange(0, nres + 1), data))
        h = " ; ".join(ops)
        cases.append(("slice %s %s" % (hexs([rng.randrange(256) for _ in range(cap)]), h)) if rng.random() < 0.6
                     else ("vec %s%s %s" % (hexs([rng.randrange(256) for _ in range(rng.choice([0, 3]))]), rng.choice(["", "", "+1", "+7", "+64", "+300", "+5000"]), h)))
    # the model has no notion of capacity for the growable target: it sees the same history without the spare-capacity mark
    import re as _re
    def for_model(c):
        c = _re.sub(r"^vec (\S+?)\+\d+ ", r"vec \1 ", c)
        if c.startswith("src "):
            for big_, small_ in HUGE.items():
                c = c.replace(big_, small_)
        return c
    m = core.run_model("buffer", [for_model(c) for c in cases], chunk=20000, timeout=600)
    o = core.run_impl("buffer", cases, chunk=20000, timeout=600)

    def classify(c, mo, oo):
        if "GUARD-OVERWRITTEN" in oo:
            return "guard-overwritten", {}
        if "LENGTH-EXCEEDS-CAPACITY" in oo:
            return "vector-longer-than-its-allocation", {}
        if oo.startswith(("crash", "panic")):
            return "crash", {}
        # first differing step
        ms, os_ = mo.split(" ; "), oo.split(" ; ")
        for i, (a, b) in enumerate(zip(ms, os_)):
            if a != b:
                return "history-step", {"op_index": i}
        return "history-length", {}

    def kind_of(c, mo):
        return c.split(" ", 1)[0] + ("-random" if False else "")

    ck.compare("histories", cases, m, o, classify=classify, kind_of=kind_of)
    spec_bad = [i for i, x in enumerate(m) if x.startswith("SPECMISMATCH")]
    for i in spec_bad[:3]:
        ck.violation("histories", "model-vs-spec", cases[i], "model = specification log (theorem C12_slice_refines_log)", m[i], kind="correspondence")
    ck.stream("histories", description="lock-step histories: result, position, contents (with guard bytes) and reservation ranges after every operation; model and append-only-log specification run side by side",
              exhaustive_part="all %d^%d op sequences x capacities 0..4 (slice) and vec with spare capacity 0/1/2/5; all %d^%d read/peek sequences x buffer lengths 0..4; reads and peeks of 2^63 and of nearly 2^64 bytes after every two-step prefix" % (len(alpha), L, len(ralpha), L),
              exhaustive_cases=n_exh + n_src, random_cases=nrand)
    # numbers through the Encoder into fixed slices that are too small by 1..n bytes: a number is one operation, a refused one leaves nothing behind
    from ..codec_common import parse_ty, to_toks
    nlines = []
    for tn, vals in (("u16", [0, 1, 0xABCD]), ("i16", [-2, 300]), ("u32", [7, 0xDEADBEEF]), ("i32", [-1, 1 << 30]), ("u64", [1, (1 << 64) - 1]), ("i64", [-(1 << 63), 5]),
                     ("varuint", [63, 64, 16383, 16384, (1 << 30) - 1, 1 << 30, (1 << 62) - 1]), ("varint", [-1, -33, 8191, -8193, 1 << 40, -(1 << 61)]), ("size", [0, 64, 70000]), ("f32", [0x3F800000]), ("f64", [0x7FF8000000000001])):
        for v in vals:
            nlines.append("enc %s %s" % (tn, " ".join(to_toks(("p", tn) if tn in ("varuint", "varint", "size", "f32", "f64") else parse_ty(tn), v))))
    # sequences and strings of 0..40 elements into a growable target that starts empty (it grows as needed) and into exactly sized slices
    for k in list(range(0, 41)) + [63, 64, 65, 300]:
        nlines.append("enc seq(u8) %s" % " ".join(to_toks(parse_ty("seq(u8)"), [i % 251 for i in range(k)])))
        nlines.append("enc seq(bool) %s" % " ".join(to_toks(parse_ty("seq(bool)"), [i % 3 == 0 for i in range(k)])))
        nlines.append("enc seq(str) %s" % " ".join(to_toks(parse_ty("seq(str)"), ["" if i % 2 else "x" for i in range(k)])))
        nlines.append("enc str %s" % " ".join(to_toks(parse_ty("str"), "y" * k)))
    on = core.run_impl("codec", nlines)
    ck.stream("refused-numbers", description="fixed- and variable-width numbers encoded into fixed slices of every capacity below their width: the encode is refused and the slice is left as it was, position included; "
              "sequences and strings of 0..40 (and 63..65, 300) elements into a growable target that starts empty and into exactly sized slices: accepted")
    for l, oo in zip(nlines, on):
        ck.count("refused-numbers", l)
        if not oo.startswith("ok "):
            ck.violation("refused-numbers", "refused-number-left-something-behind" if oo.startswith("partialwrite") else "number-encode", l, "refused for every smaller slice, nothing written", oo[:200])
    ck.extra["exhaustive"] = True
    ck.extra["rule"] = ("bounded-exhaustive: every sequence of %d operations over {write byte, write k, reserve k, write k into reservation r (r in 0..1)} with k in 0..3 on "
                        "fixed slices of capacity 0..4 and on the growable target with spare capacity 0, 1, 2 and 5 (shorter histories are prefixes: every step is observed); every sequence of %d reads/peeks (k in 0..3) "
                        "on sources of length 0..4; plus %d random histories of up to 200 operations with sizes up to 4 KiB. Distinct by case text; all are non-trivial." % (L, L, nrand))
    ck.partial.append("memory safety of the unsafe blocks is not expressible in the model; guard bytes around the fixed slice are observed after every operation (Miri is not run by this check)")
    ck.assumptions.append("allocation in VecOutputTarget succeeds (allocator is an oracle); reservations are those handed out by the same target")
