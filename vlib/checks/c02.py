"""C02: the AST says exactly what the source says."""
from .. import core, syntax_common as sc

ALLOWED_AXIOMS = ()
COMPONENT = "syntax"


def run(ck):
    n = 500 if ck.tier == "quick" else 5000
    styles = ["plain", "dense", "mixed", "mixed"]
    cases = sc.make_cases(ck, n, styles, ck.rng)
    ck.stream("programs", description="slicegen programs (every definition kind, members, tags, optionals, enumerator values in three bases with underscores at range boundaries, attributes with escaped string arguments "
              "incl. foreign directives spelled with keywords, type expressions nested to depth 3, identifiers colliding with keywords written with a backslash) x 4 token-level layouts "
              "(plain; dense = no separator wherever tokens do not fuse; 2 x mixed = spaces/tabs/no-break space/line breaks/CRLF/line and block comments/removed preprocessor blocks, optional commas, needless escapes). "
              "Oracle: the AST dump equals the program (locations aside); correspondence: the model parser's AST of the same text equals the dump; layouts of one program give the same AST.")
    byprog = {}
    for c in cases:
        text = sc.case_text(c)
        ck.count("programs", text, kind=c.style)
        if c.dump is None:
            ck.violation("programs", "crash", text, "a dump", c.raw[:300])
            continue
        if c.diags:
            ck.violation("programs", "valid-program-diagnosed", text, "no diagnostics", "%s %s" % (c.diags[0]["code"], c.diags[0]["msg"]))
            continue
        for f, d in zip(c.files, c.dump):
            e = sc.diff(sc.norm_model(f["exp"]), d, f["refs"], spans=False)
            if e:
                ck.violation("programs", "ast-differs-from-source", f["text"], e, "(dump)", detail="layout style " + c.style)
                break
            if f["model"] is None:
                ck.violation("programs", "model-rejects", f["text"], "the model parser accepts the text", f["model_raw"][:200], kind="correspondence")
                break
            e = sc.diff(f["model"], d, f["refs"], spans=False)
            if e:
                ck.violation("programs", "model-differs", f["text"], e, "(dump)", kind="correspondence")
                break
            if f["model_diags"]:
                ck.violation("programs", "model-diagnoses", f["text"], "no diagnostics", " ".join(f["model_diags"]), kind="correspondence")
        byprog.setdefault(id(c.prog), []).append(c)
    # layout independence: the dumps of one program agree with each other (locations aside)
    for cs in byprog.values():
        cs = [c for c in cs if c.dump is not None and not c.diags]
        for c in cs[1:]:
            for d0, d1, f in zip(cs[0].dump, c.dump, c.files):
                e = sc.diff(d0, d1, {}, spans=False)
                if e:
                    ck.violation("programs", "layout-dependent", f["text"] + "\n-- versus --\n" + cs[0].files[0]["text"], e, "(other layout)")
                    break
    ck.samples.append({"stream": "programs", "case": cases[0].files[0]["text"][:300], "impl": cases[0].raw[:300], "model": cases[0].files[0]["model_raw"][:300]})
    ck.extra["rule"] = "%d generated programs x 4 layouts; distinct by text" % n
