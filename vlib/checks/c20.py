"""C20: visitor traversal."""
import random
from .. import core, slicegen
from ..front_common import hx, parse_sexp, parse_diags, child

ALLOWED_AXIOMS = ()
COMPONENT = "visit"


class Ids:
    def __init__(self):
        self.m = {}
        self.rev = {}

    def __call__(self, s):
        if s not in self.m:
            self.m[s] = len(self.m) + 1
            self.rev[self.m[s]] = s
        return self.m[s]


def enc_tref(tr, ids):
    # (tr file:span opt (attrs) target)
    tgt = tr[4]
    nested = [x for x in tgt[1:]] if tgt[0] in ("seq", "dict", "res") else []
    return "T %d %d %s" % (ids("tr:" + tr[1]), len(nested), " ".join(enc_tref(n, ids) for n in nested))


def enc_file(fsx, ids):
    """dumped file -> model line (entities are named as the recording visitor names them)"""
    mod = child(fsx, "module")
    mname = None if mod[1] == "-" else mod[1]
    defs = []
    for d in child(fsx, "defs")[1:]:
        k, name = d[0], d[1]
        scoped = (mname + "::" if mname else "") + name
        if k == "struct":
            fs = child(d, "fields")[1:]
            defs.append("S %d %d %s" % (ids("struct:" + scoped), len(fs), " ".join("F %d %s" % (ids("field:%s::%s@%s" % (scoped, f[1], f[4])), enc_tref(f[-1], ids)) for f in fs)))
        elif k == "interface":
            ops = child(d, "ops")[1:]
            o_s = []
            for o in ops:
                oscoped = scoped + "::" + o[1]
                ps, rs = child(o, "params")[1:], child(o, "rets")[1:]
                o_s.append("O %d %d %s %d %s" % (ids("operation:" + oscoped), len(ps), " ".join("F %d %s" % (ids("parameter:%s::%s@%s" % (oscoped, p[1], p[5])), enc_tref(p[-1], ids)) for p in ps),
                                                 len(rs), " ".join("F %d %s" % (ids("parameter:%s::%s@%s" % (oscoped, p[1], p[5])), enc_tref(p[-1], ids)) for p in rs)))
            defs.append("I %d %d %s" % (ids("interface:" + scoped), len(ops), " ".join(o_s)))
        elif k == "enum":
            ens = child(d, "enumerators")[1:]
            e_s = []
            for e in ens:
                escoped = scoped + "::" + e[1]
                fl = child(e, "fields")[1:]
                fl = [] if fl == ["-"] else fl
                e_s.append("N %d %d %s" % (ids("enumerator:" + escoped), len(fl), " ".join("F %d %s" % (ids("field:%s::%s@%s" % (escoped, f[1], f[4])), enc_tref(f[-1], ids)) for f in fl)))
            defs.append("E %d %d %s" % (ids("enum:" + scoped), len(ens), " ".join(e_s)))
        elif k == "custom":
            defs.append("C %d" % ids("custom:" + scoped))
        elif k == "alias":
            defs.append("A %d %s" % (ids("alias:" + scoped), enc_tref(d[-1], ids)))
    return "vis %s %d %s" % (("%d" % ids("module:" + mname)) if mname else "-", len(defs), " ".join(defs))


def run(ck):
    rng = ck.rng
    n = 4000 if ck.tier == "quick" else 40000
    progs = [slicegen.Gen(random.Random(rng.randrange(1 << 60)), depth=3).program() for _ in range(n)]
    # aliases of anonymous types used from another file, and unresolvable references (not descended)
    special = [
        ["module A\ntypealias L = Sequence<Dictionary<int32, Result<bool, string>>>\nstruct S { a: L }\n", "module B\nstruct T { x: A::L, y: Sequence<A::L?> }\ninterface I { op(p: A::L) -> A::L }\n"],
        ["module A\nstruct S { a: Missing, b: Sequence<Missing>, c: int32 }\n"],
        ["module A\nunchecked enum E { X(a: Sequence<E2>), Y }\nunchecked enum E2 { }\n", "module A\ninterface J { op() -> (a: E, b: Dictionary<string, E?>) }\n"],
    ]
    special.append(["module Lonely\n"])
    special.append(["[x::attr] module Lonely::Nested\n", "module Other\nstruct S { a: int32 }\n"])
    # comments of every shape between the definitions (banners ending in a run of asterisks among them): nothing around a definition makes it disappear
    BANNERS = ["/** Shapes **/", "/* x */", "/***/", "/****/", "/* a * b ** c */", "// line", "/** two\n * lines\n **/", "/*\n*/", "/**/", "/* **/ /* */", "/// not a doc comment for nothing\n// x"]

    def render_with_banners(prog):
        out = []
        for f in prog["files"]:
            plain = slicegen.render_file(f)
            if rng.random() < 0.5 or not f["defs"]:
                out.append(plain)
                continue
            ls = []
            for d, args in f.get("fattrs", []):
                ls.append("[[%s%s]]" % (d, ("(" + ", ".join(slicegen.esc_arg(a) for a in args) + ")") if args else ""))
            ls.append(slicegen.r_attrs(f.get("mattrs", [])) + "module " + f["module"])
            for d in f["defs"]:
                if rng.random() < 0.6:
                    b = rng.choice(BANNERS[:-1])
                    ls.append(b)
                if rng.random() < 0.3:
                    # inside a region that is selected (also nested, also the #else side): what follows the region comes after it
                    how = rng.choice(["if", "else", "nested"])
                    if "#define ON" not in ls:
                        ls.insert(0, "#define ON")
                    ls += {"if": ["#if ON"], "else": ["#if !ON", "custom Never%d" % len(ls), "#else"], "nested": ["#if ON", "#if ON || OFF"]}[how]
                    ls.append(slicegen.r_def(d))
                    ls += ["#endif"] * (2 if how == "nested" else 1)
                    continue
                ls.append(slicegen.r_def(d))
            if rng.random() < 0.5:
                ls.append(rng.choice(BANNERS[:-1]))
            out.append("\n".join(ls) + "\n")
        return out
    texts = [render_with_banners(p) for p in progs] + special
    declared = [[{"%s:%s" % ({"struct": "struct", "enum": "enum", "interface": "interface", "custom": "custom", "alias": "alias"}[d["kind"]], d["scoped"]) for d in f["defs"]} for f in p["files"]] for p in progs]
    for i, ts in enumerate(texts):      # files that declare a module and nothing else
        if rng.random() < 0.15:
            ts.insert(rng.randrange(len(ts) + 1), rng.choice(["module Only%d\n", "[x::a] module Only%d\n", "[[x::f]]\nmodule Only%d::Inner\n"]) % i)
    o = core.run_impl("visit", ["visit - " + " ".join(hx(t) for t in ts) for ts in texts], chunk=200, timeout=120)
    mlines, meta = [], []
    for ti, (ts, oo) in enumerate(zip(texts, o)):
        if oo.startswith(("crash", "panic", "skipped")) or " || " not in oo:
            ck.count("traversal", "\n--\n".join(ts))
            ck.violation("traversal", "crash", "\n--\n".join(ts), "a traversal", oo[:200])
            continue
        body = oo.split(" || ", 1)[0]
        if ti < len(declared) and " || none" in oo:
            # what the program declares, read from the program itself (not from the compiled file): every definition is presented while walking its file
            allev = set(x for part in body.split(" ;; ") if " => " in part for x in part.split(" => ", 1)[1].split(" @@ ")[0].split(" "))
            missing = sorted(w for ws in declared[ti] for w in ws if w not in allev)
            if missing:
                ck.violation("traversal", "declared-definition-not-presented", "\n--\n".join(ts), "every definition the files declare", "never presented: %s" % missing[:5], signature={"kind": missing[0].split(":")[0]})
        for part in body.split(" ;; "):
            sx, ev = part.split(" => ", 1) if " => " in part else (part, "")
            ev, _, located = ev.partition(" @@ ")
            ev = ev.strip()
            ids = Ids()
            fsx = parse_sexp(sx)[0]
            mlines.append(enc_file(fsx, ids))
            meta.append((ts, ids, ev.split(" ") if ev else [], fsx))
            # what is presented is written in the file that is walked, and is presented in the order in which it is written
            fname, prev = fsx[1], None
            for item in located.split():
                kind, fh, pos = item.split("@")
                here = tuple(int(v) for v in pos.split(":"))
                if fh != fname:
                    ck.violation("traversal", "element-of-another-file-presented", "\n--\n".join(ts), "only what is written in %s" % bytes.fromhex(fname).decode(), "%s written in %s at %s" % (kind, bytes.fromhex(fh).decode(), pos),
                                 signature={"kind": kind})
                    break
                if prev is not None and here <= prev[1]:
                    ck.violation("traversal", "not-in-source-order", "\n--\n".join(ts), "every element after the one written before it", "%s at %s presented after %s at %d:%d" % (kind, pos, prev[0], prev[1][0], prev[1][1]),
                                 signature={"kind": kind})
                    break
                prev = (kind, here)
    m = core.run_model("visit", mlines, chunk=2000)
    ck.stream("traversal", description="recording Visitor on every file of generated programs (all definition kinds, anonymous types nested to depth 3, aliases of anonymous types used across files, unresolvable references); "
              "the model walks the AST as the public accessors present it; comments of every shape between the definitions, definitions inside selected conditional regions followed by others; every definition the program declares (read from the program, not from the compiled file) is presented; observable: the full event list (entity by scoped id, type reference by file:span); and where every presented entity is written: in the file walked, each after the one before it")
    for ml, mo, (ts, ids, ev, fsx) in zip(mlines, m, meta):
        ck.count("traversal", ml, kind="file")
        if mo.startswith("SPECMISMATCH"):
            ck.violation("traversal", "model-vs-spec", ml, "visit = preorder (theorem C20_visit_is_preorder)", mo[:200], kind="correspondence")
            continue
        want = []
        for tok in mo.split(" "):
            if tok == "file":
                want.append("file:" + bytes.fromhex(fsx[1]).decode())
            else:
                want.append(ids.rev[int(tok.split(":")[1])])
        if want != ev:
            k = next((i for i, (a, b) in enumerate(zip(want, ev)) if a != b), min(len(want), len(ev)))
            ck.violation("traversal", "events-differ", "\n--\n".join(ts), " ".join(want[max(0, k - 2):k + 3]), " ".join(ev[max(0, k - 2):k + 3]), detail="first difference at event %d of %d/%d" % (k, len(want), len(ev)))
    # ---- which nested types follow an owner whose type is an alias: decided from the source text alone ----
    # programs in which the alias an owner names is reached through a chain crossing modules, or through a relative name that
    # an enclosing scope and an unrelated top-level module could both supply; a decoy alias with another shape stands where a
    # wrong look-up would find it.  Expected: the owner's reference, then the type references written on the source line of
    # the alias the language rules select (file and row known by construction), as many as that line's anonymous type nests.
    SHAPES = [("Sequence<int32>", 1), ("Dictionary<string, bool>", 2), ("Result<string, bool>", 2), ("Sequence<Sequence<bool>>", 2),
              ("Dictionary<int32, Sequence<string>>", 3), ("Result<Sequence<int32>, Dictionary<string, bool>>", 5)]
    na = 60 if ck.tier == "quick" else 600
    acases = []
    for i in range(na):
        (s1, n1), (s2, n2) = rng.sample(SHAPES, 2)
        X, Y, T, U, V = rng.sample(["Alpha", "Beta", "Gamma", "Delta", "Eps", "Zeta", "Eta"], 5)
        owner = rng.choice(["struct S { v: %s }", "struct S { a: bool, v: %s }", "compact struct S { v: %s }"])
        if i % 2 == 0:
            # chain crossing modules: Y::V = X::U, X::U = T (meaning X::T); Y::T is the decoy
            extra = rng.choice(["", "typealias W = %s\n" % U])
            link = "W" if extra else U
            f0 = "module %s\ntypealias %s = %s\ntypealias %s = %s\n%s" % (X, T, s1, U, T, extra.replace("= " + U, "= " + U))
            f1 = "module %s\ntypealias %s = %s\ntypealias %s = %s::%s\n%s\n" % (Y, T, s2, V, X, link, owner % V)
            files, walked, want_file, want_row, want_n = [f0, f1], 1, 0, 2, n1
        else:
            # relative name through an enclosing scope: inside module X, Y::T means X::Y::T, not the top-level Y::T (decoy)
            f0 = "module %s\ntypealias %s = %s\n" % (Y, T, s2)
            f1 = "module %s::%s\ntypealias %s = %s\n" % (X, Y, T, s1)
            f2 = "module %s\n%s\n" % (X, owner % ("%s::%s" % (Y, T)))
            files, walked, want_file, want_row, want_n = [f0, f1, f2], 2, 1, 2, n1
        if rng.random() < 0.5 and i % 2 == 0:
            files = [files[1], files[0]]
            walked, want_file = 0, 1
        acases.append((files, walked, want_file, want_row, want_n))
    ao = core.run_impl("visit", ["visit - " + " ".join(hx(t) for t in c[0]) for c in acases], chunk=200, timeout=120)
    ck.stream("alias-scopes", description="owners typed by an alias that is reached through a chain of aliases crossing modules or through a relative name an enclosing scope supplies, with a decoy alias of another shape where a wrong look-up would find it; "
              "expected, from the source text alone: the owner's own reference followed by exactly the type references written on the source line of the alias the language rules select (file, row, count)")
    for (files, walked, wf, wr, wn), oo in zip(acases, ao):
        case = "\n--\n".join(files)
        ck.count("alias-scopes", case, kind="program")
        if oo.startswith(("crash", "panic", "skipped")) or " || " not in oo:
            ck.violation("alias-scopes", "crash", case, "a traversal", oo[:200])
            continue
        parts = oo.split(" || ", 1)[0].split(" ;; ")
        if " || none" not in oo or walked >= len(parts) or " => " not in parts[walked]:
            ck.violation("alias-scopes", "valid-program-rejected", case, "no diagnostics", oo.split(" || ", 1)[1][:200])
            continue
        evs = parts[walked].split(" => ", 1)[1].split(" @@ ")[0].split()
        k = next((j for j, e in enumerate(evs) if e.startswith("field:") and "::v@" in e), None)
        got = []
        if k is not None:
            for e in evs[k + 1:]:
                if not e.startswith("tr:"):
                    break
                got.append(e)
        want_desc = "field v, its own reference, then %d reference(s) written in file %d on row %d" % (wn, wf, wr)
        nested = got[1:]
        ok = k is not None and len(got) == 1 + wn and all(e.startswith("tr:string-%d:%d:" % (wf, wr)) for e in nested)
        if not ok:
            ck.violation("alias-scopes", "nested-types-of-another-alias", case, want_desc, " ".join(got)[:300] or "field v not presented", signature={"form": "chain" if len(files) == 2 else "relative"})
    ck.samples.append({"stream": "traversal", "case": texts[0], "model_input": mlines[0][:300], "model": m[0][:300], "impl_events": " ".join(meta[0][2])[:300]})
    ck.extra["rule"] = "%d generated valid programs (1-3 files each; every file walked) + hand-written cross-file alias / unresolved-reference programs; distinct by model input" % n
    ck.partial.append("interpretation: through an alias of an anonymous type the nested references of the alias are presented from every user (also from another file); the model presents the resolved type's nested references, as the code does")
