"""C14: emitted diagnostics."""
import json
from .. import core
from ..front_common import hx, parse_diags

ALLOWED_AXIOMS = ()
COMPONENT = "emit"
NEEDS_SLICEC = True
PAYLOADS = ["plain", 'qu"ote', "back\\slash", "tab\there", "ünïcödé 日本", "ctl\x01\x1f", "\x7f del", "new\\nline", "emoji 😀", "", "a,b=c", "  spaced  "]
NAMES = ["a.slice", 'q"uote.slice', "ü nï.slice", "t\tab.slice", "sub/dir.slice", "back\\slash.slice", "ctl\x02.slice", "sp ace.slice"]


def esc(a):
    return '"' + a.replace("\\", "\\\\").replace('"', '\\"') + '"'


def templates(rng):
    p = rng.choice(PAYLOADS)
    return [
        # deprecated with a reason (lint with span, scope and a note with span)
        "module M\n[deprecated(%s)] struct Old {}\nstruct S { a: Old }\n" % esc(p),
        # invalid attribute argument (error message carries the argument)
        "module M\n[allow(%s)] struct S {}\n" % esc(p if p else "zz"),
        # unresolved type, redefinition (note with span), duplicate tag
        "module M\nstruct S { a: Nope, b: Nope2 }\n",
        "module M\nstruct S {}\nstruct S {}\ncustom S\n",
        "module M\nstruct S { tag(1) a: int32?, tag(1) b: bool?, tag(2) c: string }\n",
        # a multi-line span and tabs / non-ASCII text on the line
        "module M\nstruct K { x: float32 }\nstruct S {\n\t/* ü */\ta: Dictionary<\n\t\tK,\n\t\tint32>,\n}\n",
        "module M\n\t\tstruct /* 日本語 */ S { a: Sequence<Nope>\t}\n",
        # spans that really run over several lines, with non-ASCII text, tabs and comments on every one of them
        "module M\nstruct S {\n    tag(1) // é ü 日本\n    a: /* ü */\n\t\tint32, b: bool\n}\n",
        "module M\ninterface I {\n    op(tag(2) /* 日本語 ünï */ p:\n        string, // ü😀\n       q: stream /* é */\n int32, r: bool)\n}\n",
        "module M\n/// @returns: déjà vu ✓ %s\n///   continued 日本\n/// @param nosuch: ü\n///\tmore\nstruct S {}\n" % p.replace("\n", " ").replace("\\", "/"),
        "module M\r\nstruct S {\r\n    tag(1) // é ü\r\n    a:\r\n    int32,\r\n}\r\n",
        # notes that have no location of their own
        "module M\ninterface I { [compress(Foo)] op() }\n",
        "module M\n[allow(NoSuchLint, %s)] struct S {}\n" % ("X" + "".join(c for c in p if c.isalnum())),
        "module M\ninterface I {\n    /// @returns value: %s\n    op() -> int32\n}\n" % p.replace("\n", " ").replace("\\", "/"),
        "module M\nenum E { A, B }\nstruct S { d: Dictionary<E, bool> }\ntypealias T = T2\ntypealias T2 = T\n",
        # doc comment lints (span, scope, several at once)
        "module M\n/// {@link Nope} and {@link Nope2}\n/// @param x: y\n/// @foo\nstruct S {}\n",
        # cycle (notes), syntax error, empty file, CRLF
        "module M\nstruct A { b: B }\nstruct B { a: Sequence<A?> }\n",
        "module M\nstruct S { a: }\n",
        "",
        "module M\r\nstruct S { a: Nope }\r\nstruct T { b: Nope }\r\n",
        "module M\nunchecked enum E : uint8 { A = 300, B = 300 }\ninterface I { op(stream a: int32, b: int32) }\n",
        # the same diagnostic recorded several times in a row (same code, message and location): once per use of an alias
        "module M\nstruct Key { f: float32 }\ntypealias Lookup = Dictionary<Key, bool>\nstruct S { a: Lookup, b: Lookup }\n",
        "module M\ntypealias A = [deprecated] int32\nstruct S { a: A, b: A, c: Sequence<A> }\n",
    ]


def model_line(fmt, files, diags):
    def sp(s):
        if s == "-":
            return "-"
        f, loc = s.split(":", 1) if False else (None, None)
        return None
    parts = ["emit", fmt, "F"] + ["%s:%s" % (hx(n), hx(t)) for n, t in files] + ["D"]
    for d in diags:
        def span(x):
            if x == "-":
                return "-"
            # file:r:c-r:c where the file name may itself contain ':' -> split from the right
            head, c2 = x.rsplit(":", 1)
            head, r2c = head.rsplit("-", 1)
            head, c1 = head.rsplit(":", 1)
            fname, r1 = head.rsplit(":", 1)
            return "%s@%s:%s-%s:%s" % (hx(fname), r1, c1, r2c, c2)
        notes = ";".join("%s~%s" % (span(nsp), hx(nm)) for nsp, nm in d["notes"])
        parts.append("%s;%s;%s;%s;%s" % (d["level"], hx(d["code"]), hx(d["msg"]), span(d["span"]), notes))
    return " ".join(parts)


def run(ck):
    rng = ck.rng
    cases = []
    n = 600 if ck.tier == "quick" else 6000
    for _ in range(n):
        k = rng.choice([1, 1, 2, 3])
        names = rng.sample(NAMES, k)
        files = [(nm, rng.choice(templates(rng))) for nm in names]
        if rng.random() < 0.15:
            files.append(files[0])     # the same file twice: DuplicateFile lint (no span)
        opts = rng.choice(["-", "-", "A:All", "A:Deprecated", "A:BrokenDocLink,A:MalformedDocComment", "A:deprecated", "A:DuplicateFile"])
        for fmt in ("json", "human"):
            cases.append((fmt, opts, files))
    lines = ["emit %s %s %s" % (fmt, opts, " ".join("%s:%s" % (hx(nm), hx(t)) for nm, t in files)) for fmt, opts, files in cases]
    o = core.run_impl("emit", lines, chunk=100, timeout=120, workers=8)
    mlines, meta = [], []
    ck.stream("emitter", description="DiagnosticEmitter into a memory writer (colours disabled) on programs producing 0..many diagnostics of every shape (with/without span and notes, spans over several lines each with non-ASCII text, tabs and comments, CRLF, quotes, backslashes, control and non-ASCII characters in messages and file names, DuplicateFile) x {json, human} x -A lists; "
              "compared byte-for-byte with the model; JSON lines parsed with Python's json")
    for (fmt, opts, files), line, oo in zip(cases, lines, o):
        ck.count("emitter", line, kind=fmt)
        parts = oo.split(" || ")
        if len(parts) != 3 or oo.startswith(("crash", "panic")):
            ck.violation("emitter", "crash", line, "output", oo[:200])
            continue
        out = bytes.fromhex(parts[0]) if parts[0] != "-" else b""
        diags = parse_diags(parts[1])
        tw, te = [int(x) for x in parts[2].split(" ")[1:]]
        shown = [d for d in diags if d["level"] != "Allowed"]
        if b"\x1b" in out and not any("\x1b" in t for _, t in files):
            ck.violation("emitter", "escape-sequence-with-colours-disabled", line, "no ESC", repr(out[:100]))
        if (tw, te) != (sum(d["level"] == "Warning" for d in diags), sum(d["level"] == "Error" for d in diags)):
            ck.violation("emitter", "totals", line, "counts of the levels", "%d %d" % (tw, te))
        if fmt == "json":
            text = out.decode("utf-8", "replace")
            jl = text.split("\n")
            if jl and jl[-1] == "":
                jl.pop()
            ok = len(jl) == len(shown)
            objs = []
            for l in jl:
                try:
                    objs.append(json.loads(l))
                except Exception:
                    ok = False
                    break
            if ok:
                for ob, d in zip(objs, shown):
                    if sorted(ob.keys()) != ["error_code", "message", "notes", "severity", "span"] or ob["message"] != d["msg"] or ob["error_code"] != d["code"] \
                            or ob["severity"] != d["level"].lower() or len(ob["notes"]) != len(d["notes"]) or (ob["span"] is None) != (d["span"] == "-"):
                        ok = False
            if not ok:
                ck.violation("emitter", "json-lines", line, "%d parseable objects with the five keys, in order" % len(shown), text[:300])
        else:
            text = out.decode("utf-8", "replace")
            heads = [l for l in text.split("\n") if l.startswith(("error [", "warning ["))]
            if len([h for h in heads if h.startswith("error [")]) < 0:
                pass
        mlines.append(model_line(fmt, files, diags))
        meta.append((line, parts[0], tw, te))
    m = core.run_model("emit", mlines, chunk=500)
    for ml, mo, (line, oh, tw, te) in zip(mlines, m, meta):
        mh, _, tot = mo.partition(" | totals ")
        if mh != oh:
            a = bytes.fromhex(mh).decode("utf-8", "replace") if mh not in ("-", "") and not mh.startswith("modelerror") else mh
            b = bytes.fromhex(oh).decode("utf-8", "replace") if oh != "-" else ""
            k = next((i for i, (x, y) in enumerate(zip(a, b)) if x != y), min(len(a), len(b)))
            ck.violation("emitter", "output-differs", line, a[max(0, k - 60):k + 60], b[max(0, k - 60):k + 60], detail="first difference at character %d" % k)
        elif tot.strip() != "%d %d" % (tw, te):
            ck.violation("emitter", "totals", line, tot, "%d %d" % (tw, te))
    ck.samples.append({"stream": "emitter", "case": lines[0][:300], "impl": o[0][:300], "model": m[0][:200]})
    ck.extra["rule"] = "%d random combinations of 13 diagnostic-producing templates x 12 payload strings x 8 file names (1-3 files, sometimes listed twice) x 7 -A option sets, each in json and human format; distinct by case text" % n
    # colours: with colours on (forced through the environment) the text is the plain text with escape sequences added; JSON never has any
    import os, re
    sample = [i for i in range(len(cases))][:(400 if ck.tier == "quick" else 4000)]
    clines = ["emit %s+color %s %s" % (cases[i][0], cases[i][1], " ".join("%s:%s" % (hx(nm), hx(t)) for nm, t in cases[i][2])) for i in sample]
    oc = core.run_impl("emit", clines, chunk=100, timeout=120, workers=8, env=dict(os.environ, CLICOLOR_FORCE="1"))
    ck.stream("colours", description="the same programs with colours left enabled (console forced to use them): the human-readable output with the escape sequences removed is the colourless output byte for byte, "
              "and does contain escape sequences when anything is shown; the JSON output contains none")
    ansi = re.compile(rb"\x1b\[[0-9;]*m")
    coloured = 0
    for i, line, oo in zip(sample, clines, oc):
        fmt, opts, files = cases[i]
        ck.count("colours", line, kind=fmt)
        parts, plain_parts = oo.split(" || "), o[i].split(" || ")
        if len(parts) != 3 or len(plain_parts) != 3:
            if len(parts) != 3:
                ck.violation("colours", "crash", line, "output", oo[:200])
            continue
        out = bytes.fromhex(parts[0]) if parts[0] != "-" else b""
        plain = bytes.fromhex(plain_parts[0]) if plain_parts[0] != "-" else b""
        if any("\x1b" in t for _, t in files):
            continue
        if fmt == "json":
            if b"\x1b" in out or out != plain:
                ck.violation("colours", "json-depends-on-colours", line, "the same JSON lines, no escape sequence", repr(out[:200]))
            continue
        if ansi.sub(b"", out) != plain:
            ck.violation("colours", "coloured-text-differs", line, repr(plain[:300]), repr(ansi.sub(b"", out)[:300]))
        elif plain and b"\x1b" in out:
            coloured += 1
    ck.extra["coloured_outputs"] = coloured
    if coloured < len(sample) // 10:
        ck.violation("colours", "colours-not-exercised", "%d of %d outputs carried escape sequences" % (coloured, len(sample)), "colours forced on", str(coloured), kind="correspondence")
    # the binary: what it writes is what the emitter writes for the recorded diagnostics, then the totals; no escape sequence with --disable-color
    from .. import driver_common as dc
    bsample = [i for i in range(len(cases)) if len({nm for nm, _ in cases[i][2]}) == len(cases[i][2])][:(160 if ck.tier == "quick" else 1600)]
    blines = []
    for i in bsample:
        fmt, opts, files = cases[i]
        extra = ["--diagnostic-format", fmt, "--disable-color", "--dry-run", "--vh-force-color"] + [x for a in (opts.split(",") if opts != "-" else []) for x in ("-A", a[2:])]
        blines.append(dc.run_line(False, extra, [], [("S", nm, t) for nm, t in files]))
    ob = dc.run_all(blines, chunk=10)
    ck.stream("binary", description="the slicec binary on the same programs with --disable-color while the environment asks for colours: its diagnostic stream is byte for byte what the emitter writes for the recorded "
              "diagnostics (JSON and human), the totals on stdout (human format only) carry the numbers of warnings and errors shown, and neither stream contains an escape sequence")
    for i, line, oo in zip(bsample, blines, ob):
        fmt, opts, files = cases[i]
        ck.count("binary", line, kind=fmt)
        r = dc.parse_run(oo)
        parts = o[i].split(" || ")
        if r is None or len(parts) != 3:
            if r is None:
                ck.violation("binary", "crash", line[:300], "a run", oo[:200])
            continue
        if any("\x1b" in t for _, t in files):
            continue
        want = bytes.fromhex(parts[0]) if parts[0] != "-" else b""
        tw, te = [int(x) for x in parts[2].split(" ")[1:]]
        case = "--diagnostic-format %s %s\n%s" % (fmt, opts, "\n--\n".join("[%s]\n%s" % (nm, t) for nm, t in files))
        if r["stderr"] != want:
            ck.violation("binary", "diagnostic-stream-differs", case, want.decode("utf-8", "replace")[:400], r["stderr"].decode("utf-8", "replace")[:400])
        if b"\x1b" in r["stdout"] or b"\x1b" in r["stderr"]:
            ck.violation("binary", "escape-sequence-with-colours-disabled", case, "no escape sequence on either stream", repr((r["stdout"] + r["stderr"])[:200]))
        wt = (("Warnings: Compilation generated %d warning(s)\n" % tw) if tw else "") + (("Failed: Compilation failed with %d error(s)\n" % te) if te else "")
        plain_out = re.sub(rb"\x1b\[[0-9;]*m", b"", r["stdout"])
        if plain_out.decode("utf-8", "replace") != (wt if fmt == "human" else ""):
            ck.violation("binary", "totals-differ", case, repr(wt if fmt == "human" else ""), repr(plain_out[:200]))
        if r["exit"] != ("1" if te else "0"):
            ck.violation("binary", "exit-status", case, "1" if te else "0", r["exit"])
    # defective directives: the location written (JSON span, human header and underline) is the one the source gives, in characters
    from . import c06
    dcases = c06.defect_cases(rng, 60 if ck.tier == "quick" else 600)
    dlines, dmeta = [], []
    for text, rows in dcases:
        for fmt in ("json", "human"):
            dlines.append(dc.run_line(False, ["--diagnostic-format", fmt, "--disable-color", "--dry-run"], [], [("S", "d.slice", text)]))
            dmeta.append((fmt, text, rows))
    od = dc.run_all(dlines, chunk=10)
    ck.stream("directive-defects", description="the slicec binary on files with two or more defective directives (stray #endif/#else/#elif, #define/#undef without a symbol, a region left open; blanks and comments with "
              "characters one to four bytes long), JSON and human format: every syntax error is written with the location the source gives (start and end in JSON; row, column, underline offset and length in the human format)")
    for (fmt, text, rows), line, oo in zip(dmeta, dlines, od):
        ck.count("directive-defects", line, kind=fmt)
        r = dc.parse_run(oo)
        if r is None:
            ck.violation("directive-defects", "crash", text, "a run", oo[:200])
            continue
        want = c06.defect_spans(text, rows)
        if fmt == "json":
            got = set()
            for d in dc.json_diags(r["stderr"]):
                sp = d.get("span")
                if d.get("error_code") == "E002" and sp:
                    got.add("%d:%d-%d:%d" % (sp["start"]["row"], sp["start"]["col"], sp["end"]["row"], sp["end"]["col"]))
        else:
            got, cur = set(), None
            for l in r["stderr"].decode("utf-8", "replace").split("\n"):
                mh = re.match(r"^ --> d\.slice:(\d+):(\d+)$", l)
                mu = re.match(r"^\s*\|( *)(-+|/\\)$", l)
                if mh:
                    cur = (int(mh.group(1)), int(mh.group(2)))
                elif mu and cur:
                    ln = 0 if mu.group(2).startswith("/") else len(mu.group(2))
                    # the underline starts below the character the span starts at (a tab is shown as four blanks; the '/' of a span of no width stands one column
                    # before it) and is as long as the span
                    shown = sum(4 if ch == "\t" else 1 for ch in text.split("\n")[cur[0] - 1][:cur[1] - 1])
                    ok = len(mu.group(1)) == (1 + shown if ln else shown)
                    got.add("%d:%d-%d:%d" % (cur[0], cur[1], cur[0], cur[1] + ln) if ok else "%d:%d underlined after %d blanks" % (cur[0], cur[1], len(mu.group(1))))
                    cur = None
        if got != want:
            ck.violation("directive-defects", "location-written-differs-from-source", "--diagnostic-format %s\n%s" % (fmt, text), "syntax errors at %s" % sorted(want), "at %s" % sorted(got), signature={"format": fmt})
    # one note per offending field, also when the notes read the same: the source says how many there must be
    nlines, nmeta = [], []
    for _ in range(40 if ck.tier == "quick" else 400):
        k = rng.choice([1, 2, 2, 3, 4])
        kinds = [rng.choice(["float32", "float32", "float64"]) for _ in range(k)]
        fields = ", ".join("f%d: %s" % (i, t) for i, t in enumerate(kinds))
        text = "module M\ncompact struct K { ok: int32, %s }\nstruct S { d: Dictionary<K, bool> }\n" % fields
        for fmt in ("json", "human"):
            nlines.append("emit %s - %s:%s" % (fmt, hx("k.slice"), hx(text)))
            nmeta.append((fmt, text, k))
    on = core.run_impl("emit", nlines, chunk=40, timeout=120)
    ck.stream("notes-per-field", description="a compact struct with 1-4 float fields used as a dictionary key: the error carries one note per offending field (two float32 fields give two notes of the same text at different places), in JSON and in human format")
    for (fmt, text, k), line, oo in zip(nmeta, nlines, on):
        ck.count("notes-per-field", line, kind=fmt)
        parts = oo.split(" || ")
        if len(parts) != 3:
            ck.violation("notes-per-field", "crash", text, "output", oo[:200])
            continue
        out = bytes.fromhex(parts[0]).decode("utf-8", "replace") if parts[0] != "-" else ""
        if fmt == "json":
            got = sum(len(json.loads(l).get("notes", [])) for l in out.split("\n") if l.startswith("{") and "E006" in l)
        else:
            got = out.count("note:")
        if got != k:
            ck.violation("notes-per-field", "note-missing", text, "%d notes, one per float field" % k, "%d in %s format" % (got, fmt), signature={"format": fmt})
    # what a generator says in its reply is printed on the standard output, one message per line in order, whatever its level; the diagnostic stream stays what the emitter writes
    gsample = [i for i in range(len(cases)) if len({nm for nm, _ in cases[i][2]}) == len(cases[i][2]) and len(o[i].split(" || ")) == 3 and o[i].split(" || ")[2].split(" ")[2] == "0" and not any("\x1b" in t for _, t in cases[i][2])][:(60 if ck.tier == "quick" else 600)]
    glines, gmeta = [], []
    for i in gsample:
        fmt, opts, files = cases[i]
        msgs = [(rng.randrange(3), rng.choice(["boom", "note to self", "ünï", "two words", "x"]) + str(k), rng.choice([None, "gen.src"])) for k in range(rng.choice([1, 2, 3]))]
        extra = ["--diagnostic-format", fmt, "--disable-color"] + [x for a in (opts.split(",") if opts != "-" else []) for x in ("-A", a[2:])]
        glines.append(dc.run_line(False, extra, [("gen-reply-0", None, dc.enc_reply([], msgs))], [("S", nm, t) for nm, t in files]))
        gmeta.append((i, msgs))
    og = dc.run_all(glines, chunk=10)
    ck.stream("generator-diagnostics", description="error-free programs (clean or with warnings) and a generator whose well-formed reply carries 1-3 diagnostics of every level, with and without a source: "
              "the diagnostic stream is byte for byte what the emitter writes for the compiler's own diagnostics (JSON or human), the generator's messages are on the standard output, one per line, in order, before the totals")
    for (i, msgs), line, oo in zip(gmeta, glines, og):
        fmt, opts, files = cases[i]
        ck.count("generator-diagnostics", line, kind=fmt)
        r = dc.parse_run(oo)
        if r is None:
            ck.violation("generator-diagnostics", "crash", line[:300], "a run", oo[:200])
            continue
        parts = o[i].split(" || ")
        want = bytes.fromhex(parts[0]) if parts[0] != "-" else b""
        tw = int(parts[2].split(" ")[1])
        case = "--diagnostic-format %s %s; the generator says %s\n%s" % (fmt, opts, msgs, "\n--\n".join("[%s]\n%s" % (nm, t) for nm, t in files))
        if r["stderr"] != want:
            ck.violation("generator-diagnostics", "diagnostic-stream-differs", case, want.decode("utf-8", "replace")[:400], r["stderr"].decode("utf-8", "replace")[:400])
        wt = "".join(m_ + "\n" for _, m_, _ in msgs) + ((("Warnings: Compilation generated %d warning(s)\n" % tw) if tw else "") if fmt == "human" else "")
        if r["stdout"].decode("utf-8", "replace") != wt:
            ck.violation("generator-diagnostics", "standard-output-differs", case, repr(wt), repr(r["stdout"][:300]))
        if r["exit"] != "0":
            ck.violation("generator-diagnostics", "exit-status", case, "0", r["exit"])
    ck.partial.append("which escape sequences the console library uses is its business; a generator's own stderr text is copied to slicec's stderr in front of the JSON lines (noted under C18)")
