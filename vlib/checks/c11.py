"""C11: decoding untrusted bytes."""
import itertools
from .. import core
from ..codec_common import *

ALLOWED_AXIOMS = ()
REPLY = ["genfile", "glevel", "gdiag", "reply"]
ALL_TYPES = MENU + EXTRA + DEC_ONLY + REPLY
INTERESTING = [0, 1, 2, 3, 4, 5, 7, 8, 9, 12, 16, 0x3f, 0x40, 0x41, 0x61, 0x7f, 0x80, 0x81, 0xbf, 0xc0, 0xc2, 0xdf, 0xe0, 0xed, 0xf0, 0xf4, 0xf5,
               0xfc, 0xfd, 0xfe, 0xff, 0xa0, 0x9f, 0x90, 0x8f, 0xfb, 0x06, 0x0a, 0x10, 0x20]
ALLOC_SLOPE, ALLOC_SLACK = 64, 8192


def split_cost(line):
    if " ~" in line:
        a, b = line.rsplit(" ~", 1)
        try:
            return a, int(b)
        except ValueError:
            return line, 0
    return line, 0


def canon(t, line):
    """canonical form of an `ok <tokens> | rest` line (hash dictionaries sorted)."""
    if not line.startswith("ok ") or t is None:
        return line
    body, rest = line[3:].rsplit(" | ", 1)
    try:
        return "ok %r | %s" % (canon_of_toks(t, body.split()), rest)
    except Exception:
        return line


def run(ck):
    rng = ck.rng
    cases = []   # (type, hexbytes, family)
    two_types = ALL_TYPES if ck.tier == "thorough" else ["bool", "u16", "str", "seq(u8)", "seq(bool)", "seq(str)", "dict(u8,bool)", "bdict(str,i32)",
                                                         "dict(bool,dict(u8,u8))", "varuint", "varint", "varint32", "varuint32", "varint@u64", "varint@usize", "varint@u8", "varuint@i8", "varuint@i64", "skiptags", "genfile", "glevel", "gdiag", "reply", "seq(seq(u16))"]
    for tn in ALL_TYPES:
        cases.append((tn, "-", "exh0"))
        for a in range(256):
            cases.append((tn, "%02x" % a, "exh1"))
    for tn in two_types:
        for a in range(256):
            for b in range(256):
                cases.append((tn, "%02x%02x" % (a, b), "exh2"))
    three_types = two_types if ck.tier == "thorough" else ["str", "seq(bool)", "dict(u8,bool)", "skiptags", "reply", "seq(str)", "gdiag"]
    for tn in three_types:
        for a, b, c in itertools.product(INTERESTING, repeat=3):
            cases.append((tn, "%02x%02x%02x" % (a, b, c), "grid3"))
    # truncations and single-byte corruptions of valid encodings
    nval = 60 if ck.tier == "quick" else 600
    enc_lines, enc_ty = [], []
    for tn in MENU:
        t = parse_ty(tn)
        for _ in range(nval):
            enc_lines.append("enc %s %s" % (tn, " ".join(to_toks(t, order_btree(t, gen_val(rng, t))))))
            enc_ty.append(tn)
    # valid replies built by hand: size-prefixed strings, tag-end markers
    def vstr(s):
        b = s.encode()
        n = len(b)
        return (bytes([n << 2]) if n < 64 else bytes([((n << 2) | 1) & 0xff, (n << 2) >> 8])) + b
    replies = []
    for _ in range(nval):
        nf, nd = rng.randrange(0, 3), rng.randrange(0, 3)
        b = bytes([nf << 2])
        for _ in range(nf):
            b += vstr(rand_string(rng, 5) or "f") + vstr(rand_string(rng, 20)) + b"\xfc"
        b += bytes([nd << 2])
        for _ in range(nd):
            hs = rng.random() < 0.5
            b += bytes([1 if hs else 0, rng.randrange(0, 3)]) + vstr(rand_string(rng, 8)) + (vstr(rand_string(rng, 4)) if hs else b"") + b"\xfc"
        replies.append(b)
    enc_out = core.run_impl("codec", enc_lines)
    valid = [(tn, bytes.fromhex(o[3:]) if o[3:] != "-" else b"") for tn, o in zip(enc_ty, enc_out) if o.startswith("ok ")]
    valid += [("reply", b) for b in replies]
    for tn, b in valid:
        if len(b) > 200:
            continue
        cases.append((tn, hexs(b), "valid"))
        for k in range(len(b)):
            cases.append((tn, hexs(b[:k]), "truncated"))
        for _ in range(min(len(b), 6)):
            i = rng.randrange(len(b))
            c = bytearray(b)
            c[i] = rng.choice([0, 1, 2, 0x7f, 0x80, 0xff, c[i] ^ 1, c[i] ^ 0x80, rng.randrange(256)])
            cases.append((tn, hexs(bytes(c)), "corrupted"))
    # strings of every length up to 90 (and around the 2-byte size prefix) with one byte made invalid at every position: plain text, seq(str), dictionary key
    for n in list(range(1, 91)) + [127, 128, 129, 255, 256, 257]:
        body = bytes(97 + (i % 26) for i in range(n))
        pre = bytes([n << 2]) if n < 64 else bytes([((n << 2) | 1) & 0xff, (n << 2) >> 8])
        for pos in (range(n) if n <= 90 else (0, n // 2, n - 9, n - 8, n - 7, n - 2, n - 1)):
            for bad in ((0x80, 0xC3, 0xFF) if ck.tier == "thorough" or pos >= n - 9 or pos < 2 else (0x80,)):
                c = bytearray(body)
                c[pos] = bad
                cases.append(("str", hexs(pre + bytes(c)), "string-bad-byte"))
                if pos in (0, n - 1, n - 3):
                    cases.append(("seq(str)", hexs(b"\x04" + pre + bytes(c)), "string-bad-byte"))
                    cases.append(("dict(str,u8)", hexs(b"\x04" + pre + bytes(c) + b"\x07"), "string-bad-byte"))
        cases.append(("str", hexs(pre + body), "valid"))
    # the same with text of two-, three- and four-byte characters before the bad byte, at every alignment (what is said about the error may quote the text before it)
    for unit in ("é", "日", "😀"):
        ub = unit.encode()
        for off in range(4):
            for reps in (3, 8, 11, 12, 16, 17, 20, 25, 31):
                good = b"a" * off + ub * reps
                for bad in (good + b"\xff", good + b"\xc3", good + ub[:-1], good[:len(good) // 2] + b"\x80" + good[len(good) // 2:], good + b"\xed\xa0\x80"):
                    n = len(bad)
                    pre = bytes([n << 2]) if n < 64 else bytes([((n << 2) | 1) & 0xff, (n << 2) >> 8])
                    cases.append(("str", hexs(pre + bad), "string-bad-byte"))
                    if reps in (11, 17):
                        cases.append(("seq(str)", hexs(b"\x04" + pre + bad), "string-bad-byte"))
    # tagged-field skipping with every tag width, incl. 4- and 8-byte tags beyond the i32 range
    def varint(v, width):
        code = {1: 0, 2: 1, 4: 2, 8: 3}[width]
        return ((((v << 2) | code)) & ((1 << (8 * width)) - 1)).to_bytes(width, "little")
    for _ in range(1500 if ck.tier == "quick" else 15000):
        b = b""
        for _ in range(rng.randrange(0, 3)):
            w = rng.choice([1, 2, 4, 8, 8])
            lim = 1 << (8 * w - 3)
            tag = rng.choice([0, 1, 5, lim - 1, rng.randrange(0, lim), (1 << 31) - 1, 1 << 31, (1 << 32) - 1, (1 << 32) + 5, -2, -(1 << 31) - 1]) % lim
            if rng.random() < 0.2:
                tag = -rng.randrange(2, 1 << 20)
            n = rng.randrange(0, 4)
            b += varint(tag, w) + bytes([n << 2]) + bytes(rng.randrange(256) for _ in range(n))
        b += rng.choice([b"\xfc", varint(-1, 2), varint(-1, 4), varint(-1, 8), varint((1 << 32) - 1, 8), b""])
        cases.append(("skiptags", hexs(b), "tags"))
        cases.append(("genfile", hexs(b"\x04a\x04b" + b), "tags"))
    # random strings up to 64 bytes
    for _ in range(20000 if ck.tier == "quick" else 200000):
        n = rng.choice([3, 4, 5, 8, 9, 16, 33, 64])
        b = bytes(rng.choice(INTERESTING) if rng.random() < 0.5 else rng.randrange(256) for _ in range(n))
        cases.append((rng.choice(ALL_TYPES), hexs(b), "random"))

    lines = ["dec %s %s" % (tn, h) for tn, h, _ in cases]
    m = core.run_model("codec", lines, chunk=20000, timeout=900)
    o = core.run_impl("codec", lines, chunk=20000, timeout=900)
    st = ck.stream("decode", description="dec <type> <bytes> through the real Decoder over a slice source: value, bytes left or error class, whether the error renders (Display), and the largest single allocation requested (counting global allocator)")
    worst = (0, None)
    for (tn, h, fam), line, mo, oo in zip(cases, lines, m, o):
        oo, cost = split_cost(oo)
        n = 0 if h == "-" else len(h) // 2
        ck.count("decode", line, kind=fam + ":" + (mo.split(" ")[0] if not mo.startswith("err") else mo))
        t = parse_ty(tn) if tn in MENU else (("p", tn) if tn in ("varuint", "varint", "size", "f32", "f64", "varint32", "varuint32", "glevel") or "@" in tn else None)
        if cost > worst[0]:
            worst = (cost, line)
        if oo.startswith("panic") or oo.startswith("crash"):
            ck.violation("decode", "panic", line, mo, oo, signature={"type": tn, "model": mo})
            continue
        if "displaypanic" in oo:
            ck.violation("decode", "error-display-panic", line, mo + " (and the error renders)", oo, signature={"type": tn, "model": mo})
            oo = oo.replace(" displaypanic", "")
        if cost > ALLOC_SLOPE * n + ALLOC_SLACK:
            ck.violation("decode", "allocation-not-bounded-by-input", line, "largest allocation <= %d*%d+%d bytes" % (ALLOC_SLOPE, n, ALLOC_SLACK), "%s ~%d" % (oo, cost), signature={"type": tn})
            if oo.startswith("err alloc"):
                continue
        if mo.startswith("err ") and oo.startswith("err "):
            # both refuse: the property asks for an error, not for a particular kind (e.g. BTreeMap lengths are decoded
            # as i32 by integer fallback and fail with OutOfRange where the model runs into the end of the buffer)
            if mo != oo:
                st["error_class_differs"] = st.get("error_class_differs", 0) + 1
        elif canon(t, mo) != canon(t, oo):
            ck.violation("decode", "result", line, mo, oo, signature={"type": tn})
        # oracle on the implementation's own output: bytes left never exceed the input
        if oo.startswith("ok "):
            try:
                left = int(oo.rsplit(" | ", 1)[1])
                if left > n or (left == n and n > 0):
                    ck.violation("decode", "over-read-or-no-progress", line, "0 <= left < %d" % n, oo)
            except Exception:
                pass
    ck.samples.append({"stream": "decode", "case": lines[len(lines) // 3], "model": m[len(lines) // 3], "impl": o[len(lines) // 3]})
    ck.samples.append({"stream": "decode", "case": lines[-1], "model": m[-1], "impl": o[-1]})
    ck.extra["largest_allocation_seen"] = {"bytes": worst[0], "case": worst[1]}
    ck.extra["exhaustive"] = True
    ck.extra["rule"] = ("exhaustive: every byte string of length <= 1 for all %d decodable types, of length 2 for %d types, a 40^3 grid of 3-byte strings for %d types; every truncation and sampled single-byte corruptions of "
                        "valid encodings (%d values per type, hand-built generator replies); random strings up to 64 bytes. Non-trivial = every case; distinct by case text." % (len(ALL_TYPES), len(two_types), len(three_types), nval))
    ck.partial.append("time is bounded through iteration counts (theorem C11_seq_iterations_bounded) and memory through the largest allocation request observed by a counting allocator; wall-clock and RSS are not measured")
    ck.assumptions.append("allocation bound checked: largest single request <= 64*len+8192 bytes; requests above 2 GiB are refused by the harness allocator so that the size, not the OS, is what is observed")
