"""C05: cycles (containment, alias loops, inheritance loops)."""
import itertools, re
from .. import core
from ..front_common import hx, parse_diags

ALLOWED_AXIOMS = ()
COMPONENT = "cycles"
NEEDS_SLICEC = True

# wrapper forms: (slice text with %s for the target, model type tokens with %s for "N k")
WRAPPERS = [("%s", "%s"), ("%s?", "%s"), ("Sequence<%s>", "Q %s"), ("Sequence<%s?>", "Q %s"),
            ("Dictionary<int32, %s>", "D P %s"), ("Dictionary<%s, int32>", "D %s P"),
            ("Result<%s, int32>", "R %s P"), ("Result<bool, %s?>", "R P %s"),
            ("Sequence<Dictionary<string, Result<bool, %s>>>", "Q D P R P %s"),
            ("%s?", "%s", True), ("Sequence<%s>?", "Q %s", True)]   # third component: the field carries a tag (tagged fields are optional)


def fld(k, b, w):
    return "%sf%d: %s" % ("tag(%d) " % k if len(WRAPPERS[w]) > 2 else "", k, WRAPPERS[w][0] % ("T%d" % b))


def program(kinds, edges):
    """kinds[i] in 'S','E'; edges: list of (src, dst, wrapper index) in field order per src.
    Returns (slice text, model line)."""
    n = len(kinds)
    per = {i: [] for i in range(n)}
    for (a, b, w) in edges:
        per[a].append((b, w))
    text, model = ["module M"], []
    for i in range(n):
        flds = per[i]
        if kinds[i] == "S":
            body = ", ".join(fld(k, b, w) for k, (b, w) in enumerate(flds))
            text.append("struct T%d { %s }" % (i, body))
            model.append("S " + " ".join("f %d %s" % (k, WRAPPERS[w][1] % ("N %d" % b)) for k, (b, w) in enumerate(flds)))
        else:
            # two enumerators: fields alternate between them (first enumerator gets even positions)
            g0 = [(k, bw) for k, bw in enumerate(flds) if k % 2 == 0]
            g1 = [(k, bw) for k, bw in enumerate(flds) if k % 2 == 1]
            # explicit values on neither, both, the second or the first enumerator: an enumerator's fields are contained whatever its value is
            vals = [("", ""), (" = 1", " = 2"), ("", " = 7"), (" = 5", "")][(i + len(flds)) % 4]
            def en(name, g, v):
                return name + ("(%s)" % ", ".join(fld(k, b, w) for k, (b, w) in g) if g else "") + v
            text.append("unchecked enum T%d { %s, %s }" % (i, en("A", g0, vals[0]), en("B", g1, vals[1])))
            model.append("E " + " ".join("f %d %s" % (k, WRAPPERS[w][1] % ("N %d" % b)) for k, (b, w) in g0) + " | " +
                         " ".join("f %d %s" % (k, WRAPPERS[w][1] % ("N %d" % b)) for k, (b, w) in g1))
    return "\n".join(text) + "\n", "cyc " + " / ".join(model)


NOTE_RE = re.compile(r"(struct|enum) '(\w+)' contains a field named '(\w+)'")


def observed_reports(dl):
    out = []
    for d in dl:
        if d["code"] != "E032":
            continue
        if d.get("level") != "Error":
            out.append(("?", "reported with level %s: %s" % (d.get("level"), d["msg"])))
            continue
        m = re.match(r"type M::T(\d+) illegally references itself: (.*)$", d["msg"])
        if not m:
            out.append(("?", d["msg"]))
            continue
        chain = [int(x.split("::T")[1]) for x in m.group(2).split(" -> ")][1:]
        notes = []
        for sp, msg in d["notes"]:
            mm = NOTE_RE.search(msg)
            notes.append((mm.group(2), mm.group(3)) if mm else ("?", msg))
        out.append((int(m.group(1)), chain, notes))
    return out


def expected_reports(mo):
    if mo == "none":
        return []
    out = []
    for r in mo.split(" ; "):
        root, chain, flds = r.split(":")
        chain = [int(x) for x in chain.split(",")]
        flds = flds.split(",")
        froms = [int(root)] + chain[:-1]
        out.append((int(root), chain, [("T%d" % a, "f%s" % f) for a, f in zip(froms, flds)]))
    return out


def run(ck):
    rng = ck.rng
    progs = []  # (text, model line, family)
    # 1a. n <= 2: every edge set, every wrapper on every edge (exhaustive); struct nodes
    for n in (1, 2):
        pairs = [(a, b) for a in range(n) for b in range(n)]
        for choice in itertools.product(range(len(WRAPPERS) + 1), repeat=len(pairs)):
            edges = [(a, b, w - 1) for (a, b), w in zip(pairs, choice) if w > 0]
            progs.append(program(["S"] * n, edges) + ("exh<=2",))
    # 1b. n = 3: all 512 graphs x struct/enum kinds sampled x wrappers sampled
    pairs = [(a, b) for a in range(3) for b in range(3)]
    for mask in range(512):
        for rep in range(2 if ck.tier == "quick" else 8):
            edges = [(a, b, rng.randrange(len(WRAPPERS))) for k, (a, b) in enumerate(pairs) if mask >> k & 1]
            rng.shuffle(edges)
            progs.append(program([rng.choice("SE") for _ in range(3)], edges) + ("all3",))
    # 1c. n = 4: all 65536 edge sets (thorough) / a sample (quick)
    pairs = [(a, b) for a in range(4) for b in range(4)]
    masks = range(65536) if ck.tier == "thorough" else [rng.randrange(65536) for _ in range(6000)]
    for mask in masks:
        edges = [(a, b, rng.randrange(len(WRAPPERS))) for k, (a, b) in enumerate(pairs) if mask >> k & 1]
        progs.append(program([rng.choice("SSE") for _ in range(4)], edges) + ("all4",))
    # 1d. random graphs up to 10 nodes with multi-edges (kept sparse: the detector enumerates simple paths)
    for _ in range(1500 if ck.tier == "quick" else 15000):
        n = rng.randrange(5, 11)
        m = rng.randrange(0, 2 * n)
        edges = [(rng.randrange(n), rng.randrange(n), rng.randrange(len(WRAPPERS))) for _ in range(m)]
        progs.append(program([rng.choice("SSE") for _ in range(n)], edges) + ("random<=10",))
    # 1e. acyclic-rich: DAGs (edges only forwards) and DAGs plus one back edge
    for _ in range(3000 if ck.tier == "quick" else 30000):
        n = rng.randrange(2, 8)
        edges = [(a, b, rng.randrange(len(WRAPPERS))) for a in range(n) for b in range(a + 1, n) if rng.random() < 0.4]
        fam = "dag"
        if rng.random() < 0.3 and n > 1:
            a = rng.randrange(1, n)
            edges.append((a, rng.randrange(0, a + 1), rng.randrange(len(WRAPPERS)))); fam = "dag+back-edge"
        rng.shuffle(edges)
        progs.append(program([rng.choice("SSE") for _ in range(n)], edges) + (fam,))
    mlines = [p[1] for p in progs]
    # every other program is compiled with all lints allowed on the command line: no suppression reaches an error
    ilines = ["diags %s %s" % ("A:All" if i % 2 else "-", hx(p[0])) for i, p in enumerate(progs)]
    m = core.run_model("cycles", mlines, chunk=5000)
    o = core.run_impl("diags", ilines, chunk=500, timeout=120)
    st = ck.stream("containment", description="struct/enum containment graphs, every edge through a wrapper form; observable: the E032 list in order: type, chain, and the (container, field) named by every note")
    for (text, ml, fam), mo, oo in zip(progs, m, o):
        ck.count("containment", ml, kind=fam + (":cyclic" if mo != "none" else ":acyclic"))
        dl = parse_diags(oo)
        if dl is None:
            ck.violation("containment", "crash", text, mo, oo, signature={"observable": oo.split(" ")[0]})
            continue
        exp, obs = expected_reports(mo), observed_reports(dl)
        if exp != obs:
            fam2 = "cycle-missed" if len(obs) < len(exp) else ("acyclic-flagged" if not exp else "report-differs")
            ck.violation("containment", fam2, text, repr(exp), repr(obs), detail=ml)
    ck.samples.append({"stream": "containment", "case": progs[-1][0], "model": m[-1], "impl": o[-1][:300]})

    # 1f. the same reports when the program also has an unrelated defect that a later or neighbouring validation reports
    DEFECTS = [("redefined-field", "struct X9 { x: int32, x: bool }\n"), ("redefined-type", "struct X9 { a: bool }\nstruct X9 { b: bool }\n"),
               ("redefined-enumerator", "enum X9 : uint8 { A, A }\n"), ("tag-on-required", "struct X9 { tag(1) a: int32 }\n"),
               ("empty-compact", "compact struct X9 {}\n"), ("empty-enum", "enum X9 : int8 {}\n"), ("duplicate-tag", "struct X9 { tag(1) a: int32?, tag(1) b: bool? }\n"),
               ("stream-not-last", "interface X9 { op(a: stream int32, b: bool) }\n"), ("lint-only", "[deprecated] struct X8 {}\nstruct X9 { o: X8 }\n")]
    cyc = [(t, mo) for (t, ml, fam), mo in zip(progs, m) if mo != "none"]
    acy = [(t, mo) for (t, ml, fam), mo in zip(progs, m) if mo == "none"]
    pick = rng.sample(cyc, min(len(cyc), 250 if ck.tier == "quick" else 3000)) + rng.sample(acy, min(len(acy), 60 if ck.tier == "quick" else 600))
    dcases = [(t + d, mo, name) for (t, mo) in pick for name, d in (rng.sample(DEFECTS, 3) if ck.tier == "quick" else DEFECTS)]
    o2 = core.run_impl("diags", ["diags - " + hx(t) for t, _, _ in dcases], chunk=500, timeout=120)
    ck.stream("with-unrelated-defect", description="cyclic and acyclic containment programs of the stream above, each extended by one unrelated defective definition (redefined field/type/enumerator, tag on a required "
              "field, empty compact struct, empty enum, duplicate tag, stream parameter not last, or only a lint); observable: the E032 list, which must be that of the program without the defect")
    for (text, mo, name), oo in zip(dcases, o2):
        ck.count("with-unrelated-defect", text, kind=name + (":cyclic" if mo != "none" else ":acyclic"))
        dl = parse_diags(oo)
        if dl is None:
            ck.violation("with-unrelated-defect", "crash", text, mo, oo, signature={"observable": oo.split(" ")[0]})
            continue
        exp, obs = expected_reports(mo), observed_reports(dl)
        if exp != obs:
            ck.violation("with-unrelated-defect", "cycle-hidden-by-other-defect" if len(obs) < len(exp) else ("acyclic-flagged" if not exp else "report-differs"), text, repr(exp), repr(obs),
                         signature={"defect": name})

    # 1g. the same programs given as reference files to the binary: what is reported does not depend on the file's role
    from .. import driver_common as dc
    pick_r = rng.sample(cyc, min(len(cyc), 120 if ck.tier == "quick" else 1200)) + rng.sample(acy, min(len(acy), 40 if ck.tier == "quick" else 400))
    rl = [dc.run_line(False, ["--diagnostic-format", "json", "--dry-run"], [], [("S", "main.slice", "module Main\nstruct Unrelated { a: int32 }\n"), ("R", "types.slice", t)]) for t, _ in pick_r]
    orr = dc.run_all(rl, chunk=10)
    ck.stream("reference-files", description="cyclic and acyclic containment programs of the first stream given to the slicec binary as a reference file next to an unrelated source file; "
              "observable: one E032 error per report of the model, exit status, no crash")
    for (text, mo), line, oo in zip(pick_r, rl, orr):
        ck.count("reference-files", line, kind="cyclic" if mo != "none" else "acyclic")
        r = dc.parse_run(oo)
        if r is None or r["exit"] not in ("0", "1"):
            ck.violation("reference-files", "crash", text, "a verdict", (oo[:200] if r is None else "exit=%s %s" % (r["exit"], r["stderr"][-200:].decode("utf-8", "replace"))), signature={"role": "reference"})
            continue
        n32 = sum(1 for d in dc.json_diags(r["stderr"]) if d.get("error_code") == "E032")
        want = len(expected_reports(mo))
        if n32 != want or (want > 0 and r["exit"] != "1"):     # other errors (an illegal dictionary key) may be reported besides
            ck.violation("reference-files", "cycle-missed-in-reference-file" if n32 < want else "report-differs", text, "%d E032 report(s)%s" % (want, ", exit 1" if want else ""), "%d E032 report(s), exit %s" % (n32, r["exit"]),
                         signature={"role": "reference"})
    # 1h. enums that (wrongly) also name an underlying type still contain their enumerators' fields: the E032 list is the same
    import re as _re
    withE = [(t, mo) for (t, mo) in cyc + acy if "unchecked enum" in t]
    pick_u = rng.sample(withE, min(len(withE), 400 if ck.tier == "quick" else 4000))
    ucases = []
    for t, mo in pick_u:
        names = _re.findall(r"unchecked enum (T\d+) \{", t)
        chosen = [x for x in names if rng.random() < 0.6] or [rng.choice(names)]
        t2, pre = t, ""
        for x in chosen:
            u = rng.choice(["uint8", "int32", "varint32", "uint16", "U9", "::M::U9"])
            if "U9" in u and "typealias U9" not in pre:
                pre = "typealias U9 = %s\n" % rng.choice(["uint8", "varint62", "int16"])
            form = rng.choice(["unchecked enum %s : %s {", "enum %s : %s {", "unchecked enum %s: %s {"])
            t2 = t2.replace("unchecked enum %s {" % x, form % (x, u))
        ucases.append((t2 + pre, mo))
    o4 = core.run_impl("diags", ["diags - " + hx(t) for t, _ in ucases], chunk=500, timeout=120)
    ck.stream("enums-with-underlying-type", description="cyclic and acyclic containment programs of the first stream whose enums (some or all) also name an underlying type, directly or through an alias "
              "(an error of its own, reported only when no cycle is); observable: the E032 list, which must be that of the program without the underlying types")
    for (text, mo), oo in zip(ucases, o4):
        ck.count("enums-with-underlying-type", text, kind="cyclic" if mo != "none" else "acyclic")
        dl = parse_diags(oo)
        if dl is None:
            ck.violation("enums-with-underlying-type", "crash", text, mo, oo, signature={"observable": oo.split(" ")[0]})
            continue
        exp, obs = expected_reports(mo), observed_reports(dl)
        if exp != obs:
            ck.violation("enums-with-underlying-type", "cycle-missed" if len(obs) < len(exp) else ("acyclic-flagged" if not exp else "report-differs"), text, repr(exp), repr(obs), signature={"enum": "with underlying type"})
    # 1i. the same programs with their types named by keywords written with a backslash (names of primitive types, mostly): a name is a name
    KWN = ["int32", "string", "bool", "uint8", "float64", "varint62", "struct", "Sequence", "AnyClass", "module"]
    pick_k = rng.sample(cyc, min(len(cyc), 300 if ck.tier == "quick" else 3000)) + rng.sample(acy, min(len(acy), 100 if ck.tier == "quick" else 1000))
    kcases = []
    for t, mo in pick_k:
        names = sorted(set(_re.findall(r"\bT(\d+)\b", t)), key=int)
        ren = {"T" + n: KWN[int(n) % len(KWN)] for n in names if int(n) < len(KWN) and rng.random() < 0.8}
        t2 = _re.sub(r"\bT(\d+)\b", lambda m_: ("\\" + ren[m_.group(0)]) if m_.group(0) in ren else m_.group(0), t)
        kcases.append((t2, mo, {v: k for k, v in ren.items()}))
    o5 = core.run_impl("diags", ["diags - " + hx(t) for t, _, _ in kcases], chunk=500, timeout=120)
    ck.stream("types-named-by-keywords", description="cyclic and acyclic containment programs of the first stream whose structs and enums are named by keywords written with a backslash (int32, string, bool, ..., struct, Sequence) "
              "and referred to in the same way; observable: the E032 list, which must be that of the program with ordinary names")
    for (text, mo, inv), oo in zip(kcases, o5):
        ck.count("types-named-by-keywords", text, kind="cyclic" if mo != "none" else "acyclic")
        dl = parse_diags(oo)
        if dl is None:
            ck.violation("types-named-by-keywords", "crash", text, mo, oo, signature={"observable": oo.split(" ")[0]})
            continue
        back = lambda x: _re.sub(r"(?<=::)(\w+)|(?<=')(\w+)(?=')", lambda m_: inv.get(m_.group(0), m_.group(0)), x)
        for d in dl:
            d["msg"] = back(d["msg"])
            d["notes"] = [(sp_, back(nm)) for sp_, nm in d["notes"]]
        exp, obs = expected_reports(mo), observed_reports(dl)
        if exp != obs:       # other errors (an illegal dictionary key) may be reported besides
            ck.violation("types-named-by-keywords", "cycle-missed" if len(obs) < len(exp) else ("acyclic-flagged" if not exp else "report-differs"), text, repr(exp), repr(obs), signature={"names": "keywords"})
    # 1j. a field inside a conditional region whose symbol another file defines or undefines: each file is preprocessed with the command line's symbols only
    ccases = []
    for _ in range(400 if ck.tier == "quick" else 4000):
        n = rng.randrange(2, 5)
        edges = [(a, b, rng.randrange(len(WRAPPERS))) for a in range(n) for b in range(n) if rng.random() < 0.35]
        if not edges:
            continue
        cond = rng.sample(range(len(edges)), rng.choice([1, 1, 2]) if len(edges) > 1 else 1)
        neg = {k: rng.random() < 0.5 for k in cond}
        other = rng.choice(["#define X\nmodule Z\nstruct Unrelated {}\n", "#undef X\nmodule Z\nstruct Unrelated {}\n", "#define X\n#define Y\nmodule M\nstruct Unrelated { t: bool }\n"])
        cli_x = rng.random() < 0.4                    # X given on the command line: it holds in every file, whatever another file says
        kept = [e for k, e in enumerate(edges) if k not in cond or (neg[k] != cli_x)]
        per = {i: [] for i in range(n)}
        for k, (a, b, w) in enumerate(edges):
            per[a].append((k, b, w))
        lines = ["module M"]
        for i in range(n):
            lines.append("struct T%d {" % i)
            fi = 0
            for k, b, w in per[i]:
                f = "    " + fld(fi, b, w)
                fi += 1
                lines += (["#if %sX" % ("!" if neg[k] else ""), f, "#endif"] if k in cond else [f])
            lines.append("}")
        text = "\n".join(lines) + "\n"
        # the model sees the graph that is left; field numbers count the fields as written, so the expected notes are renumbered per source struct
        order = rng.choice([0, 1])
        ccases.append((text, other, order, cli_x, n, edges, cond, neg))
    cm_lines, c_lines = [], []
    for text, other, order, cli_x, n, edges, cond, neg in ccases:
        per = {i: [] for i in range(n)}
        for k, (a, b, w) in enumerate(edges):
            per[a].append((k, b, w))
        model = []
        for i in range(n):
            toks, fi = [], 0
            for k, b, w in per[i]:
                if k not in cond or (neg[k] != cli_x):
                    toks.append("f %d %s" % (fi, WRAPPERS[w][1] % ("N %d" % b)))
                fi += 1
            model.append("S " + " ".join(toks))
        cm_lines.append("cyc " + " / ".join(model))
        files = [other, text] if order == 0 else [text, other]
        c_lines.append("diags %s %s" % ("D:X" if cli_x else "-", " ".join(hx(t) for t in files)))
    cm = core.run_model("cycles", cm_lines, chunk=5000)
    co = core.run_impl("diags", c_lines, chunk=300, timeout=120)
    ck.stream("fields-in-conditional-regions", description="containment graphs over 2-4 structs with some fields inside '#if X' or '#if !X', next to another file (before or after) that defines or undefines X, with and without -D X: "
              "every file is preprocessed with the command line's symbols only; observable: the E032 list of the graph that is left")
    for (text, other, order, cli_x, n, edges, cond, neg), mo, oo in zip(ccases, cm, co):
        case = ("-D X\n" if cli_x else "") + ("\n-- next file --\n".join([other, text] if order == 0 else [text, other]))
        ck.count("fields-in-conditional-regions", case, kind="cyclic" if mo != "none" else "acyclic")
        dl = parse_diags(oo)
        if dl is None:
            ck.violation("fields-in-conditional-regions", "crash", case, mo, oo, signature={"observable": oo.split(" ")[0]})
            continue
        exp, obs = expected_reports(mo), observed_reports(dl)
        if exp != obs:
            ck.violation("fields-in-conditional-regions", "cycle-missed" if len(obs) < len(exp) else ("acyclic-flagged" if not exp else "report-differs"), case, repr(exp), repr(obs), signature={"symbols": "leaked" })
    # 2. alias graphs: each alias is a primitive, another alias, or an anonymous type over aliases
    forms = [("int32", []), ] 
    def alias_forms(n):
        fs = [("int32", [])]
        for j in range(n):
            fs += [("A%d" % j, [j]), ("Sequence<A%d>" % j, [j]), ("Dictionary<int32, A%d?>" % j, [j]), ("Result<A%d, A%d>" % (j, (j + 1) % n), [j, (j + 1) % n])]
        return fs
    acases = []
    for n in (1, 2, 3):
        fs = alias_forms(n)
        for choice in itertools.product(fs, repeat=n):
            acases.append(choice)
    fs4 = alias_forms(4)
    for _ in range(3000 if ck.tier == "quick" else 40000):
        acases.append(tuple(rng.choice(fs4) for _ in range(4)))
    for _ in range(3000 if ck.tier == "quick" else 30000):   # acyclic-rich: mostly forward references
        n = rng.randrange(2, 6)
        fsn = alias_forms(n)
        ch = []
        for i in range(n):
            ok = [f for f in fsn if all(j > i for j in f[1])]
            ch.append(rng.choice(ok) if rng.random() < 0.9 else rng.choice(fsn))
        acases.append(tuple(ch))
    _graph_family(ck, "alias-loops", acases,
                  lambda ch: "module M\n" + "".join("typealias A%d = %s\n" % (i, f[0]) for i, f in enumerate(ch)) + "struct U { " + ", ".join("u%d: A%d" % (i, i) for i in range(len(ch))) + " }\n",
                  lambda ch: [f[1] for f in ch], {"E019", "E033"},
                  "alias definitions over {int32, alias, Sequence/Dictionary/Result of aliases}, every alias also used by a struct; observable: rejected (E019/E033) or accepted, no crash or hang")
    # 3. inheritance graphs
    icases = []
    for n in (1, 2, 3):
        pairs = [(a, b) for a in range(n) for b in range(n)]
        for mask in range(1 << len(pairs)):
            icases.append((n, [(a, b) for k, (a, b) in enumerate(pairs) if mask >> k & 1]))
    pairs4 = [(a, b) for a in range(4) for b in range(4)]
    masks = range(65536) if ck.tier == "thorough" else [rng.randrange(65536) for _ in range(4000)]
    for mask in masks:
        icases.append((4, [(a, b) for k, (a, b) in enumerate(pairs4) if mask >> k & 1]))
    for _ in range(3000 if ck.tier == "quick" else 30000):   # acyclic-rich: diamonds and chains, occasionally a back edge
        n = rng.randrange(2, 7)
        es = [(a, b) for a in range(n) for b in range(a + 1, n) if rng.random() < 0.35]
        if rng.random() < 0.15:
            a = rng.randrange(0, n); es.append((a, rng.randrange(0, a + 1)))
        icases.append((n, es))
    def itext(c):
        n, es = c
        out = ["module M"]
        for i in range(n):
            bases = [b for (a, b) in es if a == i]
            out.append("interface I%d%s { op%d() }" % (i, (" : " + ", ".join("I%d" % b for b in bases)) if bases else "", i))
        return "\n".join(out) + "\n"
    # the same graphs with every interface called I, each in a module of its own (one file per module): names are told apart by their scope
    def itext_same(c):
        n, es = c
        out = []
        for i in range(n):
            bases = [b for (a, b) in es if a == i]
            out.append("module N%d\ninterface I%s { op%d() }\n" % (i, (" : " + ", ".join("N%d::I" % b for b in bases)) if bases else "", i))
        return out
    same = [c for c in icases if c[0] <= 3] + rng.sample([c for c in icases if c[0] > 3], min(1500 if ck.tier == "quick" else 15000, len([c for c in icases if c[0] > 3])))
    _graph_family(ck, "inheritance-same-names", same, itext_same, lambda c: [[b for (a, b) in c[1] if a == i] for i in range(c[0])], {"E032"},
                  "the same base-list assignments with every interface named I, each in a module and file of its own; observable: rejected with E032 or accepted, no crash or hang")
    _graph_family(ck, "inheritance-loops", icases, itext, lambda c: [[b for (a, b) in c[1] if a == i] for i in range(c[0])], {"E032"},
                  "interfaces with every base-list assignment (incl. diamonds and self-inheritance); observable: rejected with E032 or accepted, no crash or hang")
    # the same graphs with doc comments that link to operations through the interfaces of the graph (own, inherited, missing), and a struct that links to them too
    def itext_links(c):
        n, es = c
        out = ["module M"]
        for i in range(n):
            bases = [b for (a, b) in es if a == i]
            j = (i + 1) % n
            out.append("/// See {@link I%d::op%d}, {@link I%d::op%d}, {@link I%d::nosuch} and {@link op%d}.\n/// @see I%d::op%d\ninterface I%d%s {\n    /// {@link I%d::op%d} {@link I%d::missing}\n    op%d()\n}"
                       % (i, i, i, j, i, i, j, i, i, (" : " + ", ".join("I%d" % b for b in bases)) if bases else "", i, j, j, i))
        out.append("/// {@link I0::op%d} {@link I%d::op0} {@link I0::zz}\nstruct Links {}" % (n - 1, n - 1))
        return "\n".join(out) + "\n"
    links = [c for c in icases if c[0] <= 3] + rng.sample([c for c in icases if c[0] > 3], min(800 if ck.tier == "quick" else 8000, len([c for c in icases if c[0] > 3])))
    _graph_family(ck, "inheritance-loops-with-links", links, itext_links, lambda c: [[b for (a, b) in c[1] if a == i] for i in range(c[0])], {"E032"},
                  "the same base-list assignments with doc comments that link to operations through the interfaces of the graph (own, inherited, missing); observable: rejected with E032 or accepted, no crash or hang")
    ck.extra["exhaustive"] = True
    ck.extra["rule"] = ("containment: all graphs over <= 2 nodes with every wrapper on every edge (exhaustive), all 512 graphs over 3 nodes and %s over 4 nodes with sampled wrappers/kinds, random graphs up to 10 nodes; "
                        "alias graphs: all assignments over <= 3 aliases, sampled over 4; inheritance: all graphs over <= 3 interfaces, %s over 4. Distinct by program text." % (("all 65536" if ck.tier == "thorough" else "6000 sampled"), ("all 65536" if ck.tier == "thorough" else "4000 sampled")))
    ck.partial.append("'no later phase recurses forever' is observed as absence of crash/hang on these families (isolated workers with a time limit); stack depth is a runtime matter")


def _graph_family(ck, name, cases, text_of, adj_of, reject_codes, desc):
    texts = [text_of(c) for c in cases]
    mlines = ["graph " + " / ".join((",".join(str(x) for x in a) if a else "-") for a in adj_of(c)) for c in cases]
    m = core.run_model("cycles", mlines, chunk=5000)
    o = core.run_impl("diags", ["diags %s %s" % ("A:All" if i % 2 else "-", hx(t) if isinstance(t, str) else " ".join(hx(x) for x in t)) for i, t in enumerate(texts)], chunk=200, timeout=60)
    texts = [t if isinstance(t, str) else "\n-- next file --\n".join(t) for t in texts]
    ck.stream(name, description=desc)
    for t, ml, mo, oo in zip(texts, mlines, m, o):
        ck.count(name, t, kind=mo)
        dl = parse_diags(oo)
        if dl is None:
            ck.violation(name, "crash-or-hang", t, mo, oo, signature={"observable": oo.split(" ")[0] + (" " + oo.split(" ")[1] if oo.startswith("crash") else ""), "model": mo})
            continue
        errs = [d for d in dl if d["level"] == "Error"]
        rejected = any(d["code"] in reject_codes for d in errs)
        if mo == "cyclic" and not rejected:
            ck.violation(name, "loop-accepted", t, "rejected with one of %s" % sorted(reject_codes), oo[:200] if errs else "accepted")
        elif mo == "acyclic" and errs:
            ck.violation(name, "acyclic-rejected", t, "accepted", " ".join(d["code"] for d in errs))
    ck.samples.append({"stream": name, "case": texts[-1], "model": m[-1], "impl": o[-1][:200]})
