"""C18: a failing generator is reported, never fatal, and never half-trusted."""
from .. import core, driver_common as dc

ALLOWED_AXIOMS = ()
NEEDS_SLICEC = True
COMPONENT = "main"
SRC = "module M\n/// a documented struct\nstruct S { a: int32, b: Sequence<string> }\n"
BAD_REPLIES = {
    "invalid-utf8-path": bytes([1 << 2]) + bytes([2 << 2, 0xff, 0xfe]) + dc.vstr("c") + b"\xfc" + b"\x00",
    "invalid-utf8-content": bytes([1 << 2]) + dc.vstr("p.txt") + bytes([2 << 2, 0xc3, 0x28]) + b"\xfc" + b"\x00",
    "invalid-bool": b"\x00" + bytes([1 << 2]) + b"\x02\x00" + dc.vstr("m") + b"\xfc",
    "invalid-level": b"\x00" + bytes([1 << 2]) + b"\x00\x07" + dc.vstr("m") + b"\xfc",
    "invalid-level-3": b"\x00" + bytes([1 << 2]) + b"\x00\x03" + dc.vstr("m") + b"\xfc",
    "invalid-level-3-after-file": bytes([1 << 2]) + dc.vstr("out.txt") + dc.vstr("hi") + b"\xfc" + bytes([1 << 2]) + b"\x00\x03" + dc.vstr("m") + b"\xfc",
    "invalid-level-4": b"\x00" + bytes([1 << 2]) + b"\x01\x04" + dc.vstr("m") + dc.vstr("src") + b"\xfc",
    "invalid-level-255": b"\x00" + bytes([1 << 2]) + b"\x00\xff" + dc.vstr("m") + b"\xfc",
    "huge-size": b"\xff\xff\xff\xff\xff\xff\xff\xff",
    "huge-string": bytes([1 << 2]) + b"\xfe\xff\xff\xff",
    "missing-tag-end": bytes([1 << 2]) + dc.vstr("p.txt") + dc.vstr("c"),
    "garbage": b"\x13\x37 not a reply",
    "invalid-utf8-message": b"\x00" + bytes([1 << 2]) + b"\x00\x01" + bytes([2 << 2, 0xc3, 0x28]) + b"\xfc",
    "invalid-utf8-source": b"\x00" + bytes([1 << 2]) + b"\x01\x01" + dc.vstr("m") + bytes([2 << 2, 0xff, 0xfe]) + b"\xfc",
    "invalid-utf8-source-after-file": bytes([1 << 2]) + dc.vstr("p.txt") + dc.vstr("c") + b"\xfc" + bytes([1 << 2]) + b"\x01\x00" + dc.vstr("m") + bytes([3 << 2, 0xe2, 0x82, 0x28]) + b"\xfc",
    "truncated-source": b"\x00" + bytes([1 << 2]) + b"\x01\x02" + dc.vstr("m") + bytes([9 << 2]) + b"abc",
    "missing-source": b"\x00" + bytes([1 << 2]) + b"\x01\x02" + dc.vstr("m"),
}


def behaviour(rng, k):
    """-> (fakegen name, reply bytes or None, model behaviour token, files this generator means to write [(path, content)])"""
    kind = rng.choice(["ok0", "okfiles", "okfiles", "missing", "notexec", "exit1", "exit255", "sigkill", "sigsegv", "stderr", "bigstderr", "bigout", "bigboth", "noread", "empty", "replyexit1", "replysigkill", "truncated", "truncated", "truncated-after-files", "bad", "bad-after-files", "oktagged", "bad-tags", "bad-tags"])
    files = [("g%d_%d.txt" % (k, j), "content of %d/%d\n" % (k, j) * rng.choice([1, 3])) for j in range(rng.choice([1, 2, 3]))]
    if rng.random() < 0.2:
        files.append(("sub%d/nested.txt" % k, "needs a directory that does not exist"))
    valid = dc.enc_reply(files, [(rng.randrange(3), "note %d" % k, rng.choice([None, "src"]))] if rng.random() < 0.3 else [])
    if kind == "ok0":
        return "gen-ok-%d" % k, None, "run:1:0:0:0000", kind
    if kind == "okfiles":
        return "gen-reply-%d" % k, valid, "run:1:0:0:" + valid.hex(), kind
    if kind in ("missing", "notexec"):
        return "gen-%s-%d" % (kind, k), None, "missing", kind
    if kind in ("exit1", "exit255"):
        return "gen-%s-%d" % (kind, k), None, "run:1:0:%s:-" % kind[4:], kind
    if kind in ("sigkill", "sigsegv"):
        return "gen-%s-%d" % (kind, k), None, "run:1:0:sig:-", kind
    if kind in ("stderr", "bigstderr", "bigboth"):
        # something on stderr, however much, and a complete reply: a failure of that generator
        return "gen-%s-%d" % (kind, k), None, "run:1:1:0:0000", kind
    if kind == "bigout":
        # a complete (empty) reply followed by a megabyte that is not looked at
        return "gen-bigout-%d" % k, None, "run:1:0:0:0000", kind
    if kind in ("noread", "empty"):
        return "gen-%s-%d" % (kind, k), None, "run:1:0:0:-", kind
    if kind == "replyexit1":
        return "gen-replyexit1-%d" % k, valid, "run:1:0:1:" + valid.hex(), kind
    if kind == "replysigkill":
        return "gen-replysigkill-%d" % k, valid, "run:1:0:sig:" + valid.hex(), kind
    if kind in ("oktagged", "bad-tags"):
        # tagged fields a newer generator might send: unknown ones are skipped (tag, size, that many bytes) up to the end marker; anything else is a reply that cannot be decoded
        extra = lambda: rng.choice([b"\x0c\x00", b"\x14\x08ab", b"\x0c\x00\x10\x04x", b"\x04\x0c\x00\x00\x00", b"\x1c\x04\xfc"])
        body = bytes([len(files) << 2])
        for j, (p_, c_) in enumerate(files):
            body += dc.vstr(p_) + dc.vstr(c_) + (extra() if rng.random() < 0.7 else b"") + b"\xfc"
        if kind == "oktagged":
            body += b"\x04\x00\x01" + dc.vstr("note %d" % k) + extra() + b"\xfc" if rng.random() < 0.5 else b"\x00"
            return "gen-reply-%d" % k, body, "run:1:0:0:" + body.hex(), kind
        one = dc.vstr("gen%d.txt" % k) + dc.vstr("hello")
        bad = rng.choice([b"\x04" + one + b"\x0c\x00",                      # tag 3, size 0, then the end of the reply where the end marker should be
                          b"\x04" + one + b"\x0c\x00\x00",                  # ... then what looks like an empty diagnostic list
                          b"\x04" + one + b"\x0c",                            # a tag and nothing else
                          b"\x04" + one + b"\x14\x28ab\xfc\x00",            # a tagged field longer than the reply
                          b"\x04" + one + b"\x00\x00",                        # tag 0 with size 0 and no end marker
                          b"\x08" + one + b"\x0c\x00" + one + b"\xfc\x00",    # the first file's tags never end; a second file follows
                          b"\x00\x04\x00\x01" + dc.vstr("m") + b"\x0c\x00"])  # the same in a diagnostic
        return "gen-reply-%d" % k, bad, "run:1:0:0:" + bad.hex(), kind
    if kind == "truncated-after-files":
        # every file is complete, the diagnostics are missing or cut
        fl = dc.enc_reply(files, [])[:-1]
        cut = fl + rng.choice([b"", b"\x04", b"\x04\x00", b"\x04\x00\x01"])
        return "gen-reply-%d" % k, cut, "run:1:0:0:" + cut.hex(), kind
    if kind == "bad-after-files":
        fl = dc.enc_reply(files, [])[:-1]
        bad = fl + rng.choice([b"\x04\x00\x09" + dc.vstr("m") + b"\xfc", b"\x04\x05\x00" + dc.vstr("m") + b"\xfc", b"\x04\x00\x01\x08\xff\xfe\xfc", b"\xff\xff\xff\xff\xff\xff\xff\xff"])
        return "gen-reply-%d" % k, bad, "run:1:0:0:" + bad.hex(), kind
    if kind == "truncated":
        cut = valid[:rng.randrange(0, len(valid))]
        return "gen-reply-%d" % k, cut, "run:1:0:0:" + (cut.hex() or "-"), kind
    name = rng.choice(sorted(BAD_REPLIES))
    return "gen-reply-%d" % k, BAD_REPLIES[name], "run:1:0:0:" + BAD_REPLIES[name].hex(), "bad:" + name


def spec_pairs(args):
    """key=value pairs of a generator specification's argument part: ',' separates, the first '=' of a pair divides it, a backslash before ',' or '=' makes
    that character ordinary, every other backslash is itself"""
    if not args:
        return []
    pairs, cur, i = [], [[], None], 0
    while i < len(args):
        c = args[i]
        if c == "\\" and i + 1 < len(args) and args[i + 1] in ",=":
            (cur[0] if cur[1] is None else cur[1]).append(args[i + 1])
            i += 2
            continue
        if c == ",":
            pairs.append(cur)
            cur = [[], None]
        elif c == "=" and cur[1] is None:
            cur[1] = []
        else:
            (cur[0] if cur[1] is None else cur[1]).append(c)
        i += 1
    pairs.append(cur)
    return [("".join(k), "".join(v or [])) for k, v in pairs]


def common_request(sin, args):
    """the request without the generator's own arguments (a dictionary appended at the end)"""
    pairs = spec_pairs(args)
    tail = bytes([len(pairs) << 2]) + b"".join(dc.vstr(k) + dc.vstr(v) for k, v in pairs)
    return sin[:-len(tail.hex())] if sin.endswith(tail.hex()) else sin + "?"


def run(ck):
    rng = ck.rng
    n = 600 if ck.tier == "quick" else 6000
    lines, mlines, metas = [], [], []
    for i in range(n):
        ng = rng.choice([1, 2, 2, 3])
        outmode = rng.choice(["absent", "given", "given", "missing-dir"])
        # (the output directory is used as it is written: a blank at either end of its name belongs to the name)
        dname = rng.choice(["out", "out", "out", "out ", " out", "o ut", "out\t"]) if outmode == "given" else "nodir"
        prefix = "" if outmode == "absent" else dname + "/"
        # now and then a request that does not fit in a pipe's buffer (a generator that does not read it breaks the pipe)
        files = [("S", "a.slice", SRC if rng.random() < 0.85 else SRC + "".join("struct Filler%d { a: int32, b: Sequence<string> }\n" % q for q in range(2500)))]
        if rng.random() < 0.3:
            files.append(("R", "r.slice", "module R\ncustom C\n"))
        if outmode == "given":
            files.append(("D", dname, ""))
        gens, fs, kinds = [], {}, []
        for k in range(ng):
            name, reply, mtok, kind = behaviour(rng, k)
            gens.append((name, rng.choice([None, "k=v", "a=b,c=d", "k=v,k=v", "a=1,b=2,a=1", "x=,x=,y=x", "k=v,k=w,k=v,k=v", "root=\\\\server\\share,flag=1", "p=a\\\\b", "k=x\\,y,z=1", "k\\=e=v", "w=tr\\\\", "a=b\\c\\\\d\\,e"]), reply if reply else None, mtok))
            kinds.append(kind)
        # what the file system will answer for every file of every decodable reply
        mraw = core.run_model("main", ["main - 0 G %s FS" % " ".join(g[3] for g in gens)])[0]
        for part in mraw.split(" | ", 1)[1].split(" ; ") if " | " in mraw else []:
            fl = part.split(" files=")[1].split(" msgs=")[0]
            for x in fl.split(","):
                if x:
                    path = bytes.fromhex(x.split(":")[0]).decode()
                    full = prefix + path
                    if outmode == "missing-dir" or "/" in path:
                        fs[path] = "F"
                    elif rng.random() < 0.25:
                        # already there: identical or different content
                        same = rng.random() < 0.5
                        fs[path] = "I" if same else "W"
                        files.append(("X", full, "@@" + path + ("=same" if same else "=different")))
                    else:
                        fs[path] = "W"
        lines.append((gens, files, fs, prefix, outmode, kinds))
    # second pass: now that the replies are fixed, materialise the pre-existing files with the right contents
    rlines, mlines = [], []
    for gens, files, fs, prefix, outmode, kinds in lines:
        mat = []
        for k, nm, t in files:
            if k == "X" and t.startswith("@@"):
                path, how = t[2:].rsplit("=", 1)
                gk = path[1]
                # the content the generator would write: find it in its reply
                want = None
                for name, _, reply, mtok in gens:
                    if reply and path.encode() in reply and name.endswith("-" + gk):
                        idx = reply.index(path.encode()) + len(path)
                        ln = reply[idx] >> 2 if reply[idx] & 3 == 0 else ((reply[idx] | (reply[idx + 1] << 8)) >> 2)
                        off = idx + (1 if reply[idx] & 3 == 0 else 2)
                        want = reply[off:off + ln]
                mat.append(("X", nm, (want if how == "same" and want is not None else b"something else")))
                if want is None:
                    fs[path] = "W"
            else:
                mat.append((k, nm, t))
        # (allowing lints, all of them even, silences no error: a generator that cannot be run or fails is reported all the same)
        extra = ["--diagnostic-format", "json"] + ([] if outmode == "absent" else ["-O", prefix.rstrip("/")]) + rng.choice([[], [], ["--allow", "All"], ["-A", "All"], ["-A", "Deprecated", "-A", "All"]])
        rlines.append(dc.run_line(False, extra, [(g[0], g[1], g[2]) for g in gens], mat))
        mlines.append("main - 0 G %s FS %s" % (" ".join(g[3] for g in gens), " ".join("%s=%s" % (p.encode().hex(), r) for p, r in fs.items())))
        metas.append((gens, mat, fs, prefix, outmode, kinds))
    o = dc.run_all(rlines)
    m = core.run_model("main", mlines)
    ck.stream("generators", description="the real slicec binary with 1..3 fake generators, each drawn from the behaviour catalogue {ok with 0..n files (also into a missing sub-directory), missing executable, not executable, "
              "exit 1/255, killed by SIGKILL/SIGSEGV (also after writing a complete reply), stderr output with exit 0 (a line, or a megabyte on stderr, on stdout, or on both), exits without reading stdin, empty reply, valid reply but exit 1, reply truncated at a random byte or right after the file sequence, complete files followed by undecodable diagnostics, "
              "replies with unknown tagged fields (skipped) and with tag sections that never end or overrun, 8 undecodable replies (invalid UTF-8/bool/level, huge sizes, missing tag end, garbage)} x own arguments with backslashes, doubled and before separators  x request size {small, larger than a pipe's buffer} x output directory {absent, given, missing} x pre-existing files {identical, different}. "
              "Compared with the driver model: every startable generator started exactly once with the same request, exit status, one error naming each failing generator, exactly the model's files written below the "
              "output directory with the reply's contents, identical files left untouched, nothing written for failing generators.")
    for (gens, mat, fs, prefix, outmode, kinds), line, oo, mo in zip(metas, rlines, o, m):
        case = "generators: %s\noutput directory: %s\nfile system: %s" % (", ".join("%s (%s)" % (g[0], k) for g, k in zip(gens, kinds)), outmode, fs)
        ck.count("generators", line, kind="+".join(sorted(set(k.split(":")[0] for k in kinds))))
        r = dc.parse_run(oo)
        if r is None:
            ck.violation("generators", "crash-or-hang", case, "a run", oo[:300])
            continue
        if r["exit"] not in ("0", "1"):
            ck.violation("generators", "abnormal-exit", case, "exit status 0 or 1", "exit=%s %s" % (r["exit"], r["stderr"][-400:].decode("utf-8", "replace")), signature={"kinds": "+".join(sorted(set(kinds)))})
            continue
        head, _, per = mo.partition(" | ")
        want_exit = head.split(" ")[1][5:]
        results = per.split(" ; ") if per else []
        if r["exit"] != want_exit:
            ck.violation("generators", "exit-status", case, "exit status " + want_exit, "exit=%s %s" % (r["exit"], r["stderr"][-300:].decode("utf-8", "replace")))
        # started once, same request
        requests = set()
        for (name, args, _, mtok), kind in zip(gens, kinds):
            inv, sin = r["gens"].get(name, (0, "none"))
            if kind in ("missing", "notexec"):
                if inv:
                    ck.violation("generators", "unstartable-generator-ran", case, "not started", "%s invoked %d times" % (name, inv))
            elif inv != 1:
                ck.violation("generators", "generator-not-started-once", case, "%s started exactly once, whatever the others do" % name, "invoked %d times" % inv)
            elif kind != "noread" and sin != "none":
                cr = common_request(sin, args)
                if cr.endswith("?"):
                    ck.violation("generators", "own-arguments-changed", case, "%s reads the request followed by its own arguments %r" % (name, args), "its input ends with ...%s" % sin[-80:],
                                 signature={"args": args or "-"})
                else:
                    requests.add(cr)
        if len(requests) > 1:
            ck.violation("generators", "requests-differ", case, "the identical request for every generator", "%d different requests" % len(requests))
        # errors: one per failing generator, naming it; one per file that could not be written
        errs = [d for d in dc.json_diags(r["stderr"]) if d.get("severity") == "error"]
        want_fail = [g[0] for g, res in zip(gens, results) if not res.startswith("err=- ")]
        for name in want_fail:
            hits = [e for e in errs if "run code-generator" in e.get("message", "") and ("/" + name + "'") in e.get("message", "")]
            if len(hits) != 1:
                ck.violation("generators", "failure-not-reported-once", case, "one error naming %s" % name, str([e.get("message") for e in errs])[:400])
        for g, res in zip(gens, results):
            if res.startswith("err=- "):
                if any(("/" + g[0] + "'") in e.get("message", "") for e in errs):
                    ck.violation("generators", "healthy-generator-blamed", case, "no error for %s" % g[0], str([e.get("message") for e in errs])[:300])
        # files
        want_files, untouched, failed = {}, set(), set()
        for g, res in zip(gens, results):
            fl = res.split(" files=")[1].split(" msgs=")[0]
            for x in fl.split(","):
                if not x:
                    continue
                ph, rs = x.split(":")
                path = bytes.fromhex(ph).decode()
                if rs == "F":
                    failed.add(path)
                    continue
                reply = g[2]
                idx = reply.index(path.encode()) + len(path)
                ln = reply[idx] >> 2 if reply[idx] & 3 == 0 else ((reply[idx] | (reply[idx + 1] << 8)) >> 2)
                off = idx + (1 if reply[idx] & 3 == 0 else 2)
                want_files[prefix + path] = reply[off:off + ln]
                if rs == "I":
                    untouched.add(prefix + path)
        have = {p: c for p, c in r["files"].items() if not p.endswith(".slice")}
        have_c = {p: c[0] for p, c in have.items()}
        pre = {nm: (t if isinstance(t, bytes) else t.encode()) for k, nm, t in mat if k == "X"}
        exp_all = dict(pre)
        exp_all.update(want_files)
        if have_c != exp_all:
            ck.violation("generators", "files-differ", case, "files %s" % sorted(exp_all), "files %s" % sorted(have_c),
                         detail="first differing: %s" % next((p for p in set(exp_all) | set(have_c) if exp_all.get(p) != have_c.get(p)), None))
        else:
            for p in untouched:
                if not have[p][1]:
                    ck.violation("generators", "identical-file-rewritten", case, "%s left untouched" % p, "rewritten")
            for p in failed:
                if not any("write generated file" in e.get("message", "") and p in e.get("message", "") for e in errs):
                    ck.violation("generators", "write-failure-not-reported", case, "an error for %s" % p, str([e.get("message") for e in errs])[:300])
    ck.samples.append({"stream": "generators", "case": rlines[0][:300], "impl": o[0][:300], "model": m[0][:200]})
    ck.extra["rule"] = "%d random configurations; distinct by case text" % n
    ck.partial.append("whether a generator that exits without reading its input sees a broken pipe or an empty reply depends on pipe buffering; both are failures and only the failure is compared. "
                      "A generator that writes a large reply before reading its input (the documented protocol violation) can block both processes; it is outside the property's catalogue and not exercised.")
