"""C09: reported locations point at the right source text."""
import re
from .. import core, syntax_common as sc
from ..front_common import hx, parse_diags

ALLOWED_AXIOMS = ()
COMPONENT = "syntax"
SPAN = re.compile(r"(\d+):(\d+)-(\d+):(\d+)$")


def all_spans(sx, out, refs=None):
    if isinstance(sx, list):
        if refs and sx and sx[0] == "tr" and len(sx) == 5 and isinstance(sx[1], str):
            # a reference to an alias carries the alias's type (attributes and nested references written in the alias's file)
            if (refs.get(sx[1]) or (None, None))[1] == "alias":
                all_spans(sx[1], out)
                return out
        for x in sx:
            all_spans(x, out, refs)
    else:
        m = SPAN.search(sx.split("@")[-1])
        if m:
            out.append(tuple(int(g) for g in m.groups()))
    return out


def comment_defects(ck):
    """C16's comment defects: tags that do not fit their element and links that lead nowhere, in comments of several lines; where do the reports point"""
    rng = ck.rng
    n = 400 if ck.tier == "quick" else 4000
    lines_, metas = [], []
    words = ["text", "more words here", "é", "ünï cödé", "a", "日本語 and ascii", "x y z", "long enough to pass every other line of this comment"]
    for _ in range(n):
        ind = rng.choice(["", "    ", "\t", "  "])
        eol = rng.choice(["\n", "\n", "\r\n"])
        host = rng.choice(["void-op", "struct", "struct", "enumerator", "field", "custom", "param-op", "param-op"])
        # (@param on an enumerator documents a field of it: not a misfit)
        tag = "@returns" if host == "void-op" else rng.choice(["@returns", "@returns r"] if host == "enumerator" else ["@param p", "@returns", "@returns r"])
        out, want = [], []      # want: (code, (r1, c1, r2, c2))
        if host == "param-op":
            # a @param tag that names no parameter: the report covers the tag and the name, whatever stands between the name and the colon
            nm = rng.choice(["nosuch", "b", "é1" if False else "zz9"])
            gap = rng.choice(["", "", " ", "  ", "\t"])
            tagline = ind + "/// " + rng.choice(["", " "]) + "@param " + nm + gap + rng.choice([": text", ": é more", ":", "" if gap == "" else ""]) 
            out = ["module M", "interface I {"] + ([ind + "/// Overview."] if rng.random() < 0.5 else []) + [tagline, ind + "op(a: int32)", "}"]
            row = out.index(tagline) + 1
            c0 = tagline.index("@") + 1
            want = [("IncorrectDocComment", (row, c0, row, c0 + len("@param ") + len(nm)))]
            text = eol.join(out) + eol
            lines_.append("diags - " + hx(text))
            metas.append((text, sorted(want)))
            continue
        pre = {"void-op": ["module M", "interface I {"], "struct": ["module M"], "enumerator": ["module M", "enum E {"], "field": ["module M", "struct S {"], "custom": ["module M"]}[host]
        post = {"void-op": [ind + "op()", "}"], "struct": [ind + "struct S {}"], "enumerator": [ind + "A", "}"], "field": [ind + "a: int32", "}"], "custom": [ind + "custom C"]}[host]
        out += pre
        if rng.random() < 0.5:
            out.append(ind + "/// An overview " + rng.choice(words))
        first = ind + "/// " + rng.choice(["", " ", "  "]) + tag + ": " + rng.choice(words)
        msg_lines = [first] + [ind + "///" + rng.choice([" ", "   ", "\t", "     "]) + rng.choice(words) for _ in range(rng.choice([0, 1, 1, 2, 3]))]
        links = []
        if rng.random() < 0.6:
            k = rng.randrange(len(msg_lines))
            target = rng.choice(["::A::B", "Missing", "::Nope", "A::B::C", "::M::Zed"])
            msg_lines[k] += " {@link %s}" % target + rng.choice(["", " end", " é"])
            links.append((k, target))
        r0 = len(out) + 1
        out += msg_lines
        c0 = first.index("@") + 1
        want.append(("IncorrectDocComment", (r0, c0, r0 + len(msg_lines) - 1, len(msg_lines[-1]) + 1)))
        for k, target in links:
            col = msg_lines[k].index("{@link ") + len("{@link ") + 1
            want.append(("BrokenDocLink", (r0 + k, col, r0 + k, col + len(target))))
        if rng.random() < 0.4:
            out.append(ind + "/// @see " + rng.choice(["::Nowhere::X", "Gone"]))
            tgt = out[-1].split("@see ")[1]
            want.append(("BrokenDocLink", (len(out), out[-1].index("@see ") + 6, len(out), out[-1].index("@see ") + 6 + len(tgt))))
        out += post
        text = eol.join(out) + eol
        lines_.append("diags - " + hx(text))
        metas.append((text, sorted(want)))
    o = core.run_impl("diags", lines_, chunk=200, timeout=120)
    ck.stream("comment-defects", description="doc comments with a tag that does not fit its element (@returns on an operation that returns nothing; @param/@returns on a struct, field, enumerator, custom type) whose message runs over 1-4 lines "
              "of differing lengths with non-ASCII text and tabs, links that lead nowhere (relative, scoped, global) in the message and in @see tags, LF and CRLF: the report about the tag runs from its '@' to the end of its message, "
              "the report about a link covers exactly the identifier as written")
    for (text, want), oo, line in zip(metas, o, lines_):
        ck.count("comment-defects", line, kind="crlf" if "\r" in text else "lf")
        dl = parse_diags(oo)
        if dl is None:
            ck.violation("comment-defects", "crash", text, "diagnostics", oo[:200])
            continue
        got = []
        for d in dl:
            if d["span"] != "-":
                a, b = d["span"].rsplit("-", 1)
                got.append((d["code"], tuple(int(x) for x in a.split(":")[-2:] + b.split(":"))))
        if sorted(got) != want:
            miss = [w for w in want if w not in got]
            extra = [g for g in got if g not in want]
            ck.violation("comment-defects", "comment-defect-location", text, repr(miss), repr(extra), signature={"code": (miss or extra or [("?",)])[0][0]})


def run(ck):
    n = 400 if ck.tier == "quick" else 4000
    styles = ["plain", "mixed", "mixed", "mixed"]
    cases = sc.make_cases(ck, n, styles, ck.rng)
    ck.stream("spans", description="slicegen programs x layouts with tabs, no-break spaces, multi-byte characters in comments and string arguments, CRLF, blank lines, removed preprocessor blocks "
              "before/between tokens, separators inside scoped identifiers; the printer records where it put every token. Oracle: every location in the AST dump (identifiers, type references, attributes, tags, "
              "integers, definitions, members, parameters, return values, enumerators, operations) equals first-token-start..last-token-end of that element; correspondence: the model lexer+parser gives the same locations; "
              "every location lies inside its file with start <= end, counted from 1; the parts of every doc comment lie within the text of that comment's lines (also with CRLF endings).")
    for c in cases:
        text = sc.case_text(c)
        ck.count("spans", text, kind=c.style)
        if c.dump is None:
            ck.violation("spans", "crash", text, "a dump", c.raw[:300])
            continue
        if c.diags:
            ck.violation("spans", "valid-program-diagnosed", text, "no diagnostics", "%s %s" % (c.diags[0]["code"], c.diags[0]["msg"]), kind="correspondence")
            continue
        # the parts of a doc comment lie within that comment's lines (its text: not on the carriage return of a CRLF ending)
        from . import c16
        docbad = None
        for f, raw in zip(c.files, c.rawfiles or []):
            defects = c16.doc_location_defects(raw, f["text"], own_lines=False)
            if defects:
                docbad = (f["text"], defects[0])
                break
        if docbad:
            ck.violation("spans", "doc-comment-part-outside-its-lines", docbad[0], "every part of a doc comment within the text of that comment's lines", docbad[1], signature={"crlf": "\r\n" in docbad[0]})
            continue
        for f, d in zip(c.files, c.dump):
            lines = f["text"].split("\n")
            bad = None
            for (r1, c1, r2, c2) in all_spans(d, [], f["trrefs"]):
                if not (1 <= r1 <= r2 <= len(lines) and c1 >= 1 and c2 >= 1 and (r1, c1) <= (r2, c2) and c1 <= len(lines[r1 - 1]) + 1 and c2 <= len(lines[r2 - 1]) + 1):
                    bad = (r1, c1, r2, c2)
                    break
            if bad:
                ck.violation("spans", "location-outside-file", f["text"], "inside the file, start <= end, from 1", "%d:%d-%d:%d" % bad)
                break
            e = sc.diff(sc.norm_model(f["exp"]), d, f["refs"], spans=True)
            if e:
                ck.violation("spans", "location-not-tight", f["text"], e, "(dump)", detail="layout style " + c.style, signature={"where": re.sub(r"\[\d+\]", "", e.split(":")[0])[-60:]})
                break
            if f["model"] is None:
                ck.violation("spans", "model-rejects", f["text"], "the model parser accepts the text", f["model_raw"][:200], kind="correspondence")
                break
            e = sc.diff(f["model"], d, f["refs"], spans=True)
            if e:
                ck.violation("spans", "model-differs", f["text"], e, "(dump)", kind="correspondence")
                break
    diagnostics_stream(ck)
    ck.samples.append({"stream": "spans", "case": cases[0].files[0]["text"][:300], "impl": cases[0].raw[:300], "model": cases[0].files[0]["model_raw"][:300]})
    ck.extra["rule"] = "%d generated programs x 4 layouts; distinct by text" % n


def collect(sx, out):
    if isinstance(sx, list):
        for x in sx:
            collect(x, out)
    elif SPAN.search(sx.split("@")[-1]):
        out.add(sx.split("@")[-1])
    return out


def diagnostics_stream(ck):
    """programs with one injected rule violation (C04's catalogue) in mixed layouts: where do the diagnostics point, and what does the snippet show"""
    comment_defects(ck)
    from . import c04, c14
    n = 300 if ck.tier == "quick" else 3000
    cases = sc.make_cases(ck, n, ["mixed", "tabs", "tabs"], ck.rng, mutate=c04.inject)
    ck.stream("diagnostics", description="programs with one violation injected from C04's catalogue (28 kinds) x 3 layouts (mixed: tabs, CRLF, multi-byte text, comments, removed blocks; 2 x tabs: tabs before, inside and right after every element). "
              "Every diagnostic and note location must be the exact extent of an element the printer wrote (identifier, type reference, tag, integer, member, definition); "
              "the human-readable output (line numbers, snippet, underline) must equal the emitter model's byte for byte.")
    elines, meta = [], []
    for c in cases:
        text = sc.case_text(c)
        ck.count("diagnostics", text, kind=str(c.what))
        if c.dump is None:
            ck.violation("diagnostics", "crash", text, "a dump", c.raw[:300])
            continue
        names = {"string-%d" % i: f for i, f in enumerate(c.files)}
        known = {nm: collect(sc.norm_model(f["exp"]), set()) for nm, f in names.items()}
        for d in c.diags or []:
            for sp in [d["span"]] + [s for s, _ in d["notes"]]:
                if sp == "-":
                    continue
                fn, loc = sp.split(":", 1)
                if fn in known and loc not in known[fn]:
                    # a few diagnostics join elements (a return tuple's parentheses, tag .. type): the extent must still run from a token's start to a token's end
                    a, b = loc.split("-")
                    dist = ck.stream("diagnostics")["distribution"]
                    dist["location joins several elements"] = dist.get("location joins several elements", 0) + 1
                    if not (a in names[fn]["tokstarts"] and b in names[fn]["tokends"]):
                        ck.violation("diagnostics", "diagnostic-not-on-an-element", names[fn]["text"], "%s %s: from the start of a written token to the end of one" % (d["code"], d["msg"][:60]), loc,
                                     detail="injected: %s" % c.what)
                        break
        files = [("file-%d.slice" % i, f["text"]) for i, f in enumerate(c.files)]
        elines.append("emit human - " + " ".join("%s:%s" % (hx(nm), hx(t)) for nm, t in files))
        meta.append((c, files))
    o = core.run_impl("emit", elines, chunk=60, timeout=300, workers=8)
    mlines, keep = [], []
    for (c, files), oo in zip(meta, o):
        parts = oo.split(" || ")
        if len(parts) != 3:
            ck.violation("diagnostics", "crash", sc.case_text(c), "emitter output", oo[:200])
            continue
        diags = parse_diags(parts[1])
        if c.diags and not any(d["code"] != "E001" for d in diags or []):
            ck.violation("diagnostics", "emitter-run-vacuous", sc.case_text(c), "the diagnostics of the compilation", str(diags)[:200], kind="correspondence")
        # the emitter was given files under other names; the model gets the same names and texts
        mlines.append(c14.model_line("human", files, diags))
        keep.append((c, parts[0]))
    m = core.run_model("emit", mlines, chunk=300)
    for (c, oh), mo in zip(keep, m):
        mh = mo.partition(" | totals ")[0]
        if mh != oh:
            a = bytes.fromhex(mh).decode("utf-8", "replace") if mh not in ("-", "") and not mh.startswith("modelerror") else mh
            b = bytes.fromhex(oh).decode("utf-8", "replace") if oh != "-" else ""
            k = next((i for i, (x, y) in enumerate(zip(a, b)) if x != y), min(len(a), len(b)))
            ck.violation("diagnostics", "snippet-differs", sc.case_text(c), a[max(0, k - 80):k + 80], b[max(0, k - 80):k + 80], detail="first difference at character %d; injected: %s" % (k, c.what))
