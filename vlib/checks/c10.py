"""C10: encoding round-trips and wire format."""
from .. import core
from ..codec_common import *

ALLOWED_AXIOMS = ()
NEEDS_SLICEC = False


def gen_cases(ck):
    rng, tier = ck.rng, ck.tier
    enc = []   # (family, typename, value)
    # all 8- and 16-bit values of every fixed-width type
    for v in range(256):
        enc.append(("fixed8", "u8", v))
        enc.append(("fixed8", "i8", v - 128))
    for v in range(65536):
        enc.append(("fixed16", "u16", v))
        enc.append(("fixed16", "i16", v - 32768))
    enc += [("bool", "bool", False), ("bool", "bool", True)]
    for name, bits in (("u32", 32), ("u64", 64)):
        for k in range(bits + 1):
            for d in (-1, 0, 1):
                v = (1 << k) + d
                if 0 <= v < (1 << bits):
                    enc.append(("fixedwide", name, v))
        for _ in range(300 if tier == "quick" else 3000):
            enc.append(("fixedwide", name, rng.randrange(1 << bits)))
    for name, bits in (("i32", 32), ("i64", 64)):
        for k in range(bits):
            for d in (-1, 0, 1):
                for s in (1, -1):
                    v = s * (1 << k) + d
                    if -(1 << (bits - 1)) <= v < (1 << (bits - 1)):
                        enc.append(("fixedwide", name, v))
        for _ in range(300 if tier == "quick" else 3000):
            enc.append(("fixedwide", name, rng.randrange(-(1 << (bits - 1)), 1 << (bits - 1))))
    # floats as bit patterns: NaN payloads, infinities, subnormals, zeros
    f32 = [0, 0x80000000, 0x7F800000, 0xFF800000, 0x7FC00000, 0x7FC00001, 0x7F800001, 0xFFC12345, 1, 0x007FFFFF, 0x00800000, 0x7F7FFFFF, 0x3F800000]
    f64 = [0, 1 << 63, 0x7FF0000000000000, 0xFFF0000000000000, 0x7FF8000000000000, 0x7FF0000000000001, 0xFFF8000000ABCDEF, 1, 0x000FFFFFFFFFFFFF, 0x0010000000000000, 0x7FEFFFFFFFFFFFFF, 0x3FF0000000000000]
    enc += [("float", "f32", v) for v in f32] + [("float", "f32", rng.randrange(1 << 32)) for _ in range(200)]
    enc += [("float", "f64", v) for v in f64] + [("float", "f64", rng.randrange(1 << 64)) for _ in range(200)]
    # variable-width: within 64 of every power of two up to 2^63 and of each range limit, both signs
    seen = set()
    for k in range(64):
        for d in range(-64, 65):
            v = (1 << k) + d
            if 0 <= v < (1 << 64) and ("u", v) not in seen:
                seen.add(("u", v)); enc.append(("varedge", "varuint", v)); enc.append(("varedge", "size", v))
            for z in (v, -v):
                if -(1 << 63) <= z < (1 << 63) and ("s", z) not in seen:
                    seen.add(("s", z)); enc.append(("varedge", "varint", z))
    for v in ((1 << 64) - 1, (1 << 63), (1 << 62), (1 << 62) - 1):
        enc.append(("varedge", "varuint", v)); enc.append(("varedge", "size", v))
    for z in (-(1 << 63), (1 << 63) - 1, -(1 << 61), (1 << 61) - 1, -(1 << 61) - 1, 1 << 61):
        enc.append(("varedge", "varint", z))
    # magnitude < 2^30: strided (quick) / dense sample (thorough; the exhaustive sweep is in-process, see sweep below)
    stride = 104729 if tier == "quick" else 4099
    off = rng.randrange(stride)
    for v in range(off, 1 << 30, stride):
        enc.append(("varstride", "varuint", v)); enc.append(("varstride", "varint", v)); enc.append(("varstride", "varint", -v))
    for _ in range(2000 if tier == "quick" else 20000):
        enc.append(("varrand", "varuint", rng.randrange(1 << 62)))
        enc.append(("varrand", "varint", rng.randrange(-(1 << 61), 1 << 61)))
        enc.append(("varrand", "size", rng.randrange(1 << 40)))
    # strings over the whole Unicode range, collections nested to depth 3
    for _ in range(3000 if tier == "quick" else 30000):
        enc.append(("string", "str", rand_string(rng, 12)))
    enc.append(("string", "str", ""))
    # strings and sequences whose size prefix sits at a width boundary (1/2 bytes at 64 elements, 2/4 bytes at 16384)
    for n in (62, 63, 64, 65, 16382, 16383, 16384, 16385):
        enc.append(("size-boundary", "str", "a" * (n - 2) + "é"))          # n bytes, the last character two bytes long
        enc.append(("size-boundary", "str", "x" * n))
        enc.append(("size-boundary", "seq(bool)", [bool((i * 7) % 3 == 0) for i in range(n)]))
        enc.append(("size-boundary", "seq(u8)", [i % 251 for i in range(n)]))
    per = 400 if tier == "quick" else 4000
    for tn in MENU[10:]:
        t = parse_ty(tn)
        for _ in range(per):
            enc.append(("nested", tn, order_btree(t, gen_val(rng, t))))
    return enc


def run(ck):
    enc = gen_cases(ck)
    lines, tys = [], []
    for fam, tn, v in enc:
        t = parse_ty(tn)
        tys.append(t)
        lines.append("enc %s %s" % (tn, " ".join(to_toks(t, v))))
    m = core.run_model("codec", lines)
    o = core.run_impl("codec", lines)
    # second pass: decode what the *implementation* wrote, followed by a suffix, with both
    dec_lines, dec_idx = [], []
    suffix = ["", "00", "ff03", "0101"]
    for i, (fam, tn, v) in enumerate(enc):
        if o[i].startswith("ok "):
            h = o[i][3:]
            h = "" if h == "-" else h
            sfx = suffix[i % 4]
            dec_lines.append("dec %s %s" % (tn, (h + sfx) or "-"))
            dec_idx.append((i, len(sfx) // 2))
    md = core.run_model("codec", dec_lines)
    od = [x.rsplit(" ~", 1)[0] for x in core.run_impl("codec", dec_lines)]

    st = ck.stream("encode", description="enc <type> <value>: exact bytes of the real Encoder (Vec target, exact-size and one-short fixed slice) vs model")
    for i, (fam, tn, v) in enumerate(enc):
        t = tys[i]
        ck.count("encode", lines[i], nontrivial=True, kind=fam)
        if has_hash_dict(t) and m[i].startswith("ok ") and o[i].startswith("ok "):
            # HashMap iteration order is an oracle: compare length here, content through the decode pass
            if len(m[i]) != len(o[i]):
                ck.violation("encode", "enc-length", lines[i], m[i], o[i], signature={"type": tn})
        elif m[i] != o[i]:
            fam2 = "refusal" if ("refused" in (m[i], o[i])) else ("crash" if o[i].startswith(("crash", "panic")) else "enc-bytes")
            ck.violation("encode", fam2, lines[i], m[i], o[i], signature={"type": tn, "gen": fam})
    ck.stream("decode", description="dec <type> <bytes written by the implementation ++ suffix>: value and bytes left, model vs real Decoder; oracle: value = original and bytes left = |suffix|")
    for j, (i, nsfx) in enumerate(dec_idx):
        fam, tn, v = enc[i]
        t = tys[i]
        ck.count("decode", dec_lines[j], kind=fam)
        mo, oo = md[j], od[j]
        if tn in ("f32", "f64", "varuint", "varint", "size"):
            t = ("p", tn)
        ok = True
        try:
            if mo.startswith("ok ") and oo.startswith("ok "):
                mt, mr = mo[3:].rsplit(" | ", 1)
                ot, orr = oo[3:].rsplit(" | ", 1)
                mv, ov = canon_of_toks(t, mt.split()), canon_of_toks(t, ot.split())
                want = canon_of_val(t, v)
                if ov != want or int(orr) != nsfx:
                    ck.violation("decode", "roundtrip", dec_lines[j], "value %r, %d left" % (want, nsfx), oo, signature={"type": tn})
                    ok = False
                elif mv != ov or mr != orr:
                    ck.violation("decode", "dec-mismatch", dec_lines[j], mo, oo, kind="correspondence", signature={"type": tn})
            elif mo != oo:
                ck.violation("decode", "roundtrip" if not oo.startswith("ok ") else "dec-mismatch", dec_lines[j], mo, oo, signature={"type": tn})
        except Exception as e:  # unparsable output
            ck.violation("decode", "unparsable", dec_lines[j], mo, oo, detail=repr(e))
    # collections beyond 2^16 entries (the model's duplicate-key test is quadratic, so these go through the implementation only: what was encoded must come back whole)
    big = []
    for nn in (65535, 65536, 65537, 70001):
        big.append(("dict(str,u8)", [("k%d" % i, i % 256) for i in range(nn)]))
        big.append(("bdict(i64,u64)", [(i * 3 - 5, i) for i in range(nn)]))
        big.append(("seq(u8)", [i % 256 for i in range(nn)]))
        big.append(("seq(str)", ["" if i % 2 else "x" for i in range(nn)]))
    big_t = [parse_ty(tn) for tn, _ in big]
    big_lines = ["enc %s %s" % (tn, " ".join(to_toks(t, order_btree(t, v)))) for (tn, v), t in zip(big, big_t)]
    ob = core.run_impl("codec", big_lines, chunk=2, timeout=300)
    dl2 = ["dec %s %s" % (tn, x[3:] if x.startswith("ok ") else "00") for (tn, _), x in zip(big, ob)]
    od2 = [x.rsplit(" ~", 1)[0] for x in core.run_impl("codec", dl2, chunk=2, timeout=300)]
    ck.stream("large-collections", description="dictionaries (hash and ordered), sequences of bytes and of strings with 65535, 65536, 65537 and 70001 entries through the real Encoder and Decoder: the value comes back whole, nothing is left")
    for (tn, v), t, el, eo, do in zip(big, big_t, big_lines, ob, od2):
        ck.count("large-collections", el[:80] + " ... %d entries" % len(v), kind=tn)
        try:
            if not eo.startswith("ok ") or not do.startswith("ok "):
                raise ValueError("not ok")
            ot, orr = do[3:].rsplit(" | ", 1)
            if canon_of_toks(t, ot.split()) != canon_of_val(t, order_btree(t, v)) or int(orr) != 0:
                raise ValueError("differs")
        except Exception as e:
            ck.violation("large-collections", "roundtrip", "%s with %d entries" % (tn, len(v)), "%d entries back, 0 bytes left" % len(v), (do[:60] + " ... " + do[-60:]) if len(do) > 130 else do, signature={"type": tn, "entries": len(v)})
    ck.samples.append({"stream": "encode", "case": lines[len(lines) // 2], "model": m[len(lines) // 2], "impl": o[len(lines) // 2]})
    ck.samples.append({"stream": "encode", "case": lines[-1], "model": m[-1], "impl": o[-1]})
    if dec_lines:
        ck.samples.append({"stream": "decode", "case": dec_lines[-1], "model": md[-1], "impl": od[-1]})
    ck.extra["rule"] = ("exhaustive: all 8/16-bit values of u8,i8,u16,i16,bool; var-ints within 64 of every power of two up to 2^63 and the range limits, "
                        "strided below 2^30, random to 2^62; float bit patterns incl. NaN payloads/infinities/subnormals; random Unicode strings; "
                        "random values of %d collection types nested to depth 3. Non-trivial = every case (each is a distinct value); distinct by (stream, case text)." % len(MENU[10:]))
    ck.extra["exhaustive"] = False
    ck.partial.append("IEEE-754 semantics of f32/f64 are not modelled: floats are handled as their bit patterns (to_bits/from_bits), which is what to_le_bytes/from_le_bytes transport")
    ck.assumptions.append("HashMap iteration order is an oracle: encoded hash dictionaries are compared by length and through decoding")
