"""C19: generator specifications."""
import itertools
from .. import core

ALLOWED_AXIOMS = ()
COMPONENT = "cli"
NEEDS_SLICEC = True
WS = set([9, 10, 11, 12, 13, 32, 133, 160, 5760, 8232, 8233, 8239, 8287, 12288] + list(range(8192, 8203)))


def hx(s):
    b = s.encode("utf-8")
    return b.hex() if b else "-"


def trim(s):
    i, j = 0, len(s)
    while i < j and ord(s[i]) in WS:
        i += 1
    while j > i and ord(s[j - 1]) in WS:
        j -= 1
    return s[i:j]


def rand_comp(rng, blank_ok=False):
    n = rng.choice([0, 1, 1, 2, 3, 5]) if blank_ok else rng.choice([1, 1, 2, 3, 5])
    alphabet = ["a", "b", " ", ",", "=", "\\", "\t", "é", "　", "x", "/", "-", " ", "😀", '"', "'", " "]
    s = "".join(rng.choice(alphabet) if rng.random() < 0.8 else chr(rng.choice([rng.randrange(0x21, 0x7F), rng.randrange(0xA1, 0xD7FF), rng.randrange(0xE000, 0x10FFFF)])) for _ in range(n))
    while s.endswith("\\"):
        s = s[:-1] + "z"
    return s


def run(ck):
    rng = ck.rng
    # 1. every string of length <= 5 over {a, space, ',', '=', '\'}
    alpha = ["a", " ", ",", "=", "\\"]
    short = [""]
    for n in range(1, 6):
        short += ["".join(t) for t in itertools.product(alpha, repeat=n)]
    cases = ["spec " + hx(s) for s in short]
    m = core.run_model("cli", cases)
    o = core.run_impl("cli", cases)

    def classify(c, mo, oo):
        if oo.startswith(("panic", "crash")):
            return "panic", {"input": c}
        return "parse-result", {}
    ck.compare("short-strings", cases, m, o, classify=classify, kind_of=lambda c, mo: mo.split(" ")[0] + (" " + mo.split(" ")[1] if mo.startswith("err") else ""))
    ck.stream("short-strings", description="all %d strings of length <= 5 over {a, space, ',', '=', backslash} through SliceOptions::try_parse_from(--generator=S) vs the model" % len(short), exhaustive=True)

    # 2. random path/argument lists written through the extracted render_opt
    n = 4000 if ck.tier == "quick" else 40000
    structs, rlines = [], []
    for _ in range(n):
        blank = rng.random() < 0.1
        p = rand_comp(rng, blank_ok=blank)
        args = []
        for _ in range(rng.choice([0, 1, 1, 2, 3, 5])):
            k = rand_comp(rng, blank_ok=blank)
            v = rand_comp(rng, blank_ok=True)
            omit = (v == "" and k != "" and rng.random() < 0.5)
            args.append((omit, k, v))
        tr = rng.random() < 0.3
        if tr and args and args[-1][0] is False and False:
            pass
        structs.append((p, args, tr))
        rlines.append("render %s %d %d %s" % (hx(p), 1 if tr else 0, len(args), " ".join("%d %s %s" % (1 if om else 0, hx(k), hx(v)) for om, k, v in args)))
    rendered = core.run_model("cli", rlines)
    cases2 = ["spec " + r for r in rendered]
    m2 = core.run_model("cli", cases2)
    o2 = core.run_impl("cli", cases2)
    ck.compare("rendered", cases2, m2, o2, classify=classify, kind_of=lambda c, mo: mo.split(" ")[0])
    # oracle on the implementation's output: exactly that path and those pairs, trimmed, in order; blank path/key rejected
    st = ck.stream("rendered", description="random Unicode path/argument lists (components not ending in a backslash) written by the extracted render_opt (escaping, optional '=', optional trailing comma); oracle: result = (trim path, trimmed pairs) or the rejection the theorems name")
    bad = 0
    for (p, args, tr), c, oo in zip(structs, cases2, o2):
        # a trailing comma directly after an escaped... is still a trailing comma; but if the last written component is empty
        # and '=' was omitted the comma pair collapses: excluded by wf_arg (omit only with non-empty key)
        if trim(p) == "":
            want = "err missingpath"
        elif any(trim(k) == "" for _, k, _ in args):
            want = "err missingkey"
        else:
            want = " ".join(["ok", hx(trim(p)), str(len(args))] + [x for _, k, v in args for x in (hx(trim(k)), hx(trim(v)))])
        if oo != want:
            bad += 1
            ck.violation("rendered", "roundtrip", c, want, oo, signature={}, detail="written from path=%r args=%r trailing_comma=%r" % (p, args, tr))
    # 3. repeated -G: parsed independently, order preserved
    multi, want_multi = [], []
    ok_idx = [i for i, x in enumerate(m2) if x.startswith("ok ")]
    for _ in range(300):
        idx = [rng.choice(ok_idx) for _ in range(rng.choice([2, 3]))]
        multi.append("specs " + " ".join(rendered[i] for i in idx))
        want_multi.append(" / ".join(m2[i][3:] for i in idx))
    om = core.run_impl("cli", multi)
    ck.compare("repeated-G", multi, want_multi, om, classify=classify)
    # 4. delivery: what the generator process receives after the request is exactly the parsed argument list, in order
    from .. import driver_common as dc
    nd = 60 if ck.tier == "quick" else 600
    arglists = [[(False, "k", "a"), (True, "other", ""), (False, "k", "b")], [(True, "v", ""), (True, "v", "")], [(False, "a", ""), (False, "a", "x"), (False, "b", "x")],
                [(False, "include", "a"), (False, "include", "a")],
                # values and keys in quotation marks are delivered with them: nothing on the way removes a layer of quoting
                [(False, "name", '"x y"'), (False, "a", "''"), (False, "q", "'single'")], [(False, '"k"', '"'), (False, "u", "\"'"), (False, "e", '""')], [(False, "v", "'a\"b'"), (True, "'w'", "")]]
    while len(arglists) < nd:
        args = []
        keys = [rand_comp(rng) for _ in range(3)]
        for _ in range(rng.choice([1, 1, 2, 3, 5])):
            k = rng.choice(keys) if rng.random() < 0.5 else rand_comp(rng)      # repeated keys are ordinary
            v = rand_comp(rng, blank_ok=True)
            if trim(k) == "":
                k = "k" + k
            args.append((v == "" and rng.random() < 0.5, k, v))
        arglists.append(args)
    rl = ["render 70 %d %d %s" % (rng.choice([0, 0, 1]), len(a), " ".join("%d %s %s" % (1 if om else 0, hx(k), hx(v)) for om, k, v in a)) for a in arglists]
    rend = [bytes.fromhex(x).decode("utf-8") if x != "-" else "" for x in core.run_model("cli", rl)]
    src = [("S", "a.slice", "module M\nstruct S { a: int32 }\n")]
    extra = ["--diagnostic-format", "json"]
    dlines = [dc.run_line(False, extra, [("gen-reply-0", None, dc.enc_reply([]))], src)]
    groups = []      # each run: 1..3 generators, each with an argument list of its own (also none)
    k = 0
    while k < len(rend):
        g = rng.choice([1, 1, 2, 3])
        idxs = list(range(k, min(k + g, len(rend))))
        k += g
        none_at = rng.randrange(len(idxs) + 1) if rng.random() < 0.3 else None
        gens = []
        for pos, i in enumerate(idxs):
            if none_at == pos:
                gens.append(("gen-reply-n%d" % pos, None, None))
            gens.append(("gen-reply-%d" % pos, rend[i][2:] if rend[i].startswith("p,") else None, i))
        groups.append(gens)
        dlines.append(dc.run_line(False, extra, [(nm, a, dc.enc_reply([])) for nm, a, _ in gens], src))
    od = [dc.parse_run(x) for x in dc.run_all(dlines)]
    ck.stream("delivered", description="the slicec binary with 1..3 recording generators, each given an argument list of its own (repeated keys, omitted '=', empty values, escaped separators, Unicode, or none) written by the extracted render_opt; "
              "observable: the bytes each generator reads: the request of the argument-less run followed by the encoded dictionary of exactly its own parsed pairs, in order")
    base = od[0]["gens"].get("gen-reply-0", (0, "none"))[1] if od[0] else "none"
    if base == "none" or not base.endswith("00"):
        ck.violation("delivered", "baseline", dlines[0][:200], "a request ending in an empty argument list", str(base)[-40:], kind="correspondence")
    else:
        prefix = bytes.fromhex(base)[:-1]
        for gens, x, line in zip(groups, od[1:], dlines[1:]):
            ck.count("delivered", line, kind="generators=%d" % len(gens))
            for nm, argspec, i in gens:
                a = arglists[i] if i is not None else []
                want = prefix + bytes([len(a) << 2]) + b"".join(dc.vstr(trim(k_)) + dc.vstr(trim(v_)) for _, k_, v_ in a)
                got = x["gens"].get(nm, (0, "none")) if x else (0, "crash")
                if got[0] != 1 or got[1] in ("none", "crash") or bytes.fromhex(got[1]) != want:
                    tail = bytes.fromhex(got[1])[len(prefix):] if got[1] not in ("none", "crash") else got[1]
                    ck.violation("delivered", "arguments-changed-on-the-way", " ".join("--generator=%s%s" % (n2, "," + a2 if a2 else "") for n2, a2, _ in gens),
                                 "%s started once and given %r" % (nm, [(trim(k_), trim(v_)) for _, k_, v_ in a]), "started %d time(s), argument bytes %r" % (got[0], tail))
    # a generator that fails is named by the path as it was written, whatever else names the same file
    flines, fmeta = [], []
    for _ in range(40 if ck.tier == "quick" else 400):
        gens = []
        for pos in range(rng.choice([1, 1, 2, 3])):
            how = rng.choice(["exit1", "exit1", "missing", "sigkill", "reply"])
            sp = rng.choice(["abs", "rel", "rel", "dot", "dslash", "updown", "bslash", "bslash", "ctl", "ctl", "astral", "astral", "cwd", "cwd"])
            gens.append(("gen-%s-%d" % (how, pos), rng.choice([None, "k=v"]), dc.enc_reply([]) if how == "reply" else None, sp))
        if rng.random() < 0.4:
            # the same generator named twice (other arguments): two generators, two reports if it fails
            g0 = rng.choice(gens)
            gens.insert(rng.randrange(len(gens) + 1), (g0[0], rng.choice([None, "language=b,verbose", "k=v"]), g0[2], g0[3]))
        ffmt = rng.choice(["json", "human"])
        flines.append(dc.run_line(False, ["--diagnostic-format", ffmt, "--disable-color"], gens, src))
        fmeta.append((gens, ffmt))
    of = [dc.parse_run(x) for x in dc.run_all(flines)]
    ck.stream("failing-generator-path", description="1..3 generators that fail (exit status, missing executable, killed) or work, their paths written absolutely, relative to the working directory, with a '.' or '..' component, "
              "a doubled slash, absolutely below the working directory, or through a directory with backslashes, control characters or characters beyond the basic plane in its name, some named twice, in JSON and in human format: every failing generator is reported once, by the path as written")
    for (gens, ffmt), x, line in zip(fmeta, of, flines):
        ck.count("failing-generator-path", line, kind=ffmt + ":" + "+".join(sorted({g[3] for g in gens})))
        if x is None:
            ck.violation("failing-generator-path", "crash", line[:200], "a run", "no result")
            continue
        if ffmt == "json":
            msgs = [d.get("message", "") for d in dc.json_diags(x["stderr"]) if d.get("severity") == "error"]
        else:
            msgs = [l for l in x["stderr"].decode("utf-8", "replace").split("\n") if l.startswith("error [")]
        for nm, _, reply, sp in sorted(set((g[0], None, g[2], g[3]) for g in gens), key=lambda g: g[0]):
            times = sum(1 for g in gens if g[0] == nm)
            tail = {"abs": "/gens/%s'" % nm, "rel": "'../gens/%s'" % nm, "dot": "/gens/./%s'" % nm, "dslash": "/gens//%s'" % nm, "updown": "/gens/../gens/%s'" % nm, "bslash": "/gens/odd\\dir \\x/%s'" % nm,
                    "ctl": "/gens/c\x01t\x9bl\x7f/%s'" % nm, "astral": "/gens/a\U0001F600\U0010FFFFz/%s'" % nm,
                    "cwd": "/w/tools/%s'" % nm}[sp]      # an absolute path below the working directory, where no program is: reported as written, not relative to the directory
            hits = [m_ for m_ in msgs if "run code-generator" in m_ and tail in m_ and (sp != "abs" or not any(t in m_ for t in ("/./", "//", "/../", "\\")))]
            if len(hits) != (times if (reply is None or sp == "cwd") else 0):
                ck.violation("failing-generator-path", "failing-generator-not-named-as-written", " ".join("%s (%s)" % (g[0], g[3]) for g in gens),
                             ("%d error(s) naming %s as written (%s)" % (times, nm, tail)) if (reply is None or sp == "cwd") else "no error about %s" % nm, str(msgs)[:400], signature={"spelling": sp})
    ck.extra["exhaustive"] = True
    ck.extra["rule"] = "exhaustive: all 3906 strings of length <= 5 over 5 characters; %d random written specifications over the whole Unicode range; 300 repeated -G command lines. Distinct by case text; all non-trivial." % n
    ck.partial.append("clap's own option parsing is exercised, not modelled; the encoding of the argument dictionary is the codec's (C10)")
