"""C01: every input yields a verdict: no crash, abort or hang."""
import itertools, random, time
from .. import core, slicegen, driver_common as dc
from ..front_common import hx, parse_diags

ALLOWED_AXIOMS = ()
NEEDS_SLICEC = True
COMPONENT = "syntax"
KEYWORDS = ["module", "struct", "interface", "enum", "custom", "typealias", "Result", "Sequence", "Dictionary", "bool", "int8", "uint8", "int16", "uint16", "int32", "uint32",
            "varint32", "varuint32", "int64", "uint64", "varint62", "varuint62", "float32", "float64", "string", "compact", "idempotent", "stream", "tag", "unchecked"]
PUNCT = ["(", ")", "[", "]", "[[", "]]", "{", "}", "<", ">", ",", ":", "::", "=", "?", "->", "-"]
ALPHABET = KEYWORDS + PUNCT + ["x", "1", '"s"', "/// d\n"]
TYPES = ["int32", "string?", "Sequence<int32>", "Dictionary<string, bool>", "Result<int32, string>", "S", "E", "I", "C", "A", "::M::S", "Nope", "M", "Sequence<Sequence<I>>", "Dictionary<S, I>",
         "Result<A, Result<E, C>>", "B", "[deprecated] S", "Sequence<[x::y] Nope?>", "int32??", "Dictionary<int32>", "Sequence<>"]
POSITIONS = ["module M\n%s\nstruct T { f: X }\n", "module M\n%s\ninterface J : X {}\n", "module M\n%s\ninterface J : I, X {}\n", "module M\n%s\nenum F : X { P }\n", "module M\n%s\ntypealias Z = X\n",
             "module M\n%s\nstruct T { f: Dictionary<X, int32> }\n", "module M\n%s\nstruct T { f: Dictionary<int32, X> }\n", "module M\n%s\ninterface J { op(p: X) -> X }\n",
             "module M\n%s\ninterface J { op() -> (a: X, b: stream X) }\n", "module M\n%s\nenum F { P(a: X) }\n", "module M\n%s\nstruct T { tag(1) f: X }\n", "module M\n%s\ncompact struct T { f: X }\n",
             "module M\n%s\ninterface J { op(p: stream X) }\n", "module M\n%s\nstruct T { f: Sequence<X> }\n", "module M\n%s\nstruct T { f: Result<X, X> }\n", "module M\n%s\n/// {@link X}\nstruct T {}\n"]
DECLS = "struct S { a: int32 }\nenum E : uint8 { P }\ninterface I {}\ncustom C\ntypealias A = Sequence<S>\ntypealias B = A"
CYCLES = [
    "module M\nstruct A { b: B }\nstruct B { a: A }\n", "module M\nstruct A { a: A }\n", "module M\nstruct A { a: A? }\n", "module M\nstruct A { a: Sequence<A> }\n",
    "module M\ninterface A : A {}\n", "module M\ninterface A : B {}\ninterface B : A {}\n", "module M\ninterface A : B {}\ninterface B : C {}\ninterface C : A { op() }\n",
    "module M\ntypealias A = A\n", "module M\ntypealias A = B\ntypealias B = A\n", "module M\ntypealias A = Sequence<A>\n", "module M\ntypealias A = B\ntypealias B = Dictionary<int32, A?>\n",
    "module M\ntypealias A = Result<A, A>\nstruct S { a: A }\n", "module M\nenum E { P(e: E) }\n", "module M\nenum E { P(s: S) }\nstruct S { e: E }\n", "module M\nstruct A { d: Dictionary<A, A> }\n",
    "module M\ncompact struct K { k: K }\nstruct U { d: Dictionary<K, int32> }\n", "module M\ntypealias A = B\ntypealias B = C\ntypealias C = A\nstruct S { a: A, b: Sequence<B?> }\n",
    "module M\ninterface A : A, A {}\n", "module M\ntypealias T = Sequence<T?>\ninterface I { op(t: T) -> T }\n",
]


def dense_dag(n):
    """n structs, each containing all later ones: acyclic, but exponentially many containment paths"""
    return "module M\n" + "\n".join("struct S%d { %s }" % (i, ", ".join("f%d: S%d" % (j, j) for j in range(i + 1, n))) for i in range(n)) + "\n"


def nested_keys(n):
    return "module M\n" + "\n".join("compact struct K%d { a: %s, b: %s }" % (i, "K%d" % (i + 1) if i + 1 < n else "int32", "K%d" % (i + 1) if i + 1 < n else "int32") for i in range(n)) + \
        "\nstruct U { d: Dictionary<K0, int32> }\n"


def dense_inheritance(n):
    return "module M\n" + "\n".join("interface I%d%s { op%d() }" % (i, (" : " + ", ".join("I%d" % j for j in range(i))) if i else "", i) for i in range(n)) + "\n"


def alias_fan(n):
    return "module M\ntypealias A0 = int32\n" + "\n".join("typealias A%d = Dictionary<A0, Result<A%d, A%d>>" % (i, i - 1, i - 1) for i in range(1, n)) + "\nstruct S { a: A%d }\n" % (n - 1)


def mutate(rng, text):
    r = rng.random()
    if not text:
        return "x"
    i = rng.randrange(len(text))
    if r < 0.25:
        return text[:i] + text[i + 1:]
    if r < 0.5:
        return text[:i] + rng.choice(["{", "}", "(", ")", "[", "]]", "::", "?", '"', "\\", "/*", "///", "#if", "\n#", "\t", "\r\n", "ü", "　", "0x", "-", "<", ">", ",", "=", "@", "\x00", "😀"]) + text[i:]
    if r < 0.7:
        j = rng.randrange(len(text))
        i, j = min(i, j), max(i, j)
        return text[:i] + text[j:]
    if r < 0.85:
        toks = text.split(" ")
        if len(toks) > 2:
            a, b = rng.randrange(len(toks)), rng.randrange(len(toks))
            toks[a], toks[b] = toks[b], toks[a]
        return " ".join(toks)
    return text[:i] + text[i:i + rng.randrange(1, 20)] * 2 + text[i:]


def expect_e002(mo):
    if mo.startswith("err"):
        return True
    return "doc-on-module" in mo or "doc-on-parameter" in mo or "module-required" in mo


def classify(oo):
    if oo.startswith(("crash", "panic", "skipped")):
        return "CRASH"
    d = parse_diags(oo)
    if d is None:
        return "CRASH"
    return "errors" if any(x["level"] == "Error" for x in d) else "clean"


def run(ck):
    rng = ck.rng
    t0 = time.time()
    # ---------------------------------------------------------------- 1. token soups, bounded-exhaustive
    depth = 3 if ck.tier == "quick" else 4
    soups = []
    for k in range(0, depth + 1):
        if k == depth and depth == 4:
            # the full 4-token space is 6.9 M: every 4-soup over a reduced alphabet, and a sample of the rest
            red = ["module", "struct", "enum", "interface", "x", "1", '"s"', "/// d\n", "(", ")", "[", "]", "{", "}", "<", ">", ":", "::", "=", "?", "->", "-", ",", "tag", "Sequence", "int32", "compact", "stream"]
            soups += [" ".join(t) for t in itertools.product(red, repeat=4)]
            soups += [" ".join(rng.choice(ALPHABET) for _ in range(4)) for _ in range(200000)]
        else:
            soups += [" ".join(t) for t in itertools.product(ALPHABET, repeat=k)]
    o = core.run_impl("diags", ["diags - " + hx(s) for s in soups], chunk=3000, timeout=300)
    m = core.run_model("syntax", ["parse " + hx(s) for s in soups], chunk=5000)
    st = ck.stream("token-soups", exhaustive=True, description="every sequence of up to %d tokens over the %d-token alphabet (30 keywords, 17 punctuation tokens, identifier, integer, string, doc comment), as one file; "
                   "outcome class of the implementation (clean / errors / crash) and whether a syntax error (E002) is reported, against the model parser's verdict" % (depth, len(ALPHABET)))
    for s, oo, mo in zip(soups, o, m):
        ck.count("token-soups", s, kind="%d tokens" % (len(s.split(" ")) if s else 0))
        c = classify(oo)
        if c == "CRASH":
            ck.violation("token-soups", "crash", s, "diagnostics", oo[:300])
            continue
        has = any(d["code"] == "E002" for d in parse_diags(oo))
        if has != expect_e002(mo):
            ck.violation("token-soups", "syntax-verdict-differs", s, "syntax error expected" if expect_e002(mo) else "no syntax error expected (%s)" % mo[:60], "E002 reported" if has else "no E002", kind="correspondence")
        elif expect_e002(mo) and c != "errors":
            ck.violation("token-soups", "malformed-accepted", s, "an error diagnostic", oo[:200])
    # ---------------------------------------------------------------- 2. mutations of valid programs
    n = 4000 if ck.tier == "quick" else 60000
    muts = []
    for i in range(n):
        if i % 40 == 0:
            base = slicegen.render(slicegen.Gen(random.Random(rng.randrange(1 << 60)), nfiles=rng.choice([1, 2]), doc=False).program())
        texts = list(base)
        for _ in range(rng.choice([1, 1, 2, 3])):
            j = rng.randrange(len(texts))
            texts[j] = mutate(rng, texts[j])
        muts.append(texts)
    o2 = core.run_impl("diags", ["diags %s %s" % (rng.choice(["-", "-", "A:All", "D:FOO"]), " ".join(hx(t) for t in ts)) for ts in muts], chunk=200, timeout=120)
    ck.stream("mutations", description="byte/character/token mutations (deletions, insertions of brackets, quotes, comment openers, directives, tabs, CRLF, non-ASCII, NUL; token swaps; duplications) of generated valid programs, 1-2 files, some options")
    m2 = core.run_model("syntax", ["parse " + hx(ts[0]) for ts in muts], chunk=2000)
    for ts, oo, mo in zip(muts, o2, m2):
        case = "\n--\n".join(ts)
        ck.count("mutations", case)
        if classify(oo) == "CRASH":
            ck.violation("mutations", "crash", case, "diagnostics", oo[:300])
        elif "#" not in ts[0] and len(ts) == 1 and mo.startswith("err") and classify(oo) != "errors":
            ck.violation("mutations", "malformed-accepted", case, "an error diagnostic (model: %s)" % mo[:80], oo[:200])
    # ---------------------------------------------------------------- 3. every type form in every type position; cycles; dense graphs; comments
    forms = []
    for pos in POSITIONS:
        for t in TYPES:
            forms.append((pos % DECLS).replace("X", t))
    forms += CYCLES
    forms += ["module M\n///　 a\n///  b\n///\t c {@link S}\n/// @param x: y\n///  z\nstruct S {}\n", "module M\r\n/// a\r\n///   b\r\nstruct S {}\r\n", "///", "/// x", "module M\n/// x", "module M\nstruct S {\n/// x\n}",
              "﻿module M\n", "module M\n" + "struct S { a: " + "Sequence<" * 300 + "int32" + ">" * 300 + " }\n", "module M\n" + "[a]" * 2000 + "struct S {}\n", "module " + "::".join("M%d" % i for i in range(500)) + "\n",
              "module M\nstruct S { " + " ".join("f%d: int32" % i for i in range(3000)) + " }\n", "module M\nenum E { " + " ".join("A%d" % i for i in range(3000)) + " }\n", "module M\n" + "/* " * 1000, '"' * 999, "[[" * 500,
              "module M\ninterface I { " + "op(" * 200 + " }\n", "module M\ntypealias A0 = int32\n" + "\n".join("typealias A%d = A%d" % (i, i - 1) for i in range(1, 400)) + "\nstruct S { a: A399 }\n",
              "module M\ninterface I0 {}\n" + "\n".join("interface I%d : I%d {}" % (i, i - 1) for i in range(1, 300)) + "\n", "module M\n" + "\n".join("struct S%d { a: S%d }" % (i, i + 1) for i in range(300)) + "\nstruct S300 {}\n"]
    # every program of three aliases whose bodies are a name, a sequence, a dictionary value or a result over the aliases and int32
    bodies = []
    for tgt in ("A", "B", "C", "int32"):
        bodies += [tgt, "Sequence<%s>" % tgt, "Dictionary<string, %s>" % tgt, "Result<%s, string>" % tgt]
    for a, b, c in itertools.product(bodies, repeat=3):
        forms.append("module M\ntypealias A = %s\ntypealias B = %s\ntypealias C = %s\nstruct S { a: A }\n" % (a, b, c))
    # malformed and boundary integer literals in every literal position
    for lit in ["0x", "0b", "0b_", "0x_", "0_", "1_", "00", "0xg", "0b2", "9" * 40, "0x" + "f" * 33, "1__2", "0X1", "0B1", "1e5", "0x-1", "-0", "- 1", "--1", "1-", "340282366920938463463374607431768211455",
                "170141183460469231731687303715884105727", "170141183460469231731687303715884105728", "-170141183460469231731687303715884105728", "-170141183460469231731687303715884105729"]:
        forms += ["module M\nenum E : int64 { A = %s, B }\n" % lit, "module M\nunchecked enum E { A = %s }\n" % lit, "module M\nstruct S { tag(%s) a: int32? }\n" % lit,
                  "module M\ninterface I { op(tag(%s) a: int32?) -> tag(%s) string? }\n" % (lit, lit), "module M\nenum E { A(tag(%s) x: bool?) = %s }\n" % (lit, lit)]
    # string literals: a backslash before every kind of character (one, two, three and four bytes long; quotes, another backslash, a line end, the end of the file), in every place that takes a string
    for lit in ["\\\u00e9", "caf\\\u00e9", "\\\u20ac x", "\\\U0001F600", "a\\\U0001F600\\\u00e9\\\\", "\\\\\u00e9", "\\\"\u00e9", "\\n\\t\\0", "\u00e9\\", "\\\u3000", "x\\\u0301", "\\\x7f\\\x01"]:
        forms += ['module M\n[deprecated("%s")] struct S {}\n' % lit, 'module M\n[foo::bar("%s", "%s")] struct S {}\n' % (lit, lit), '[[x::y("%s")]]\nmodule M\n' % lit,
                  'module M\ninterface I { [deprecated("%s")] op([p::q("%s")] a: int32) }\n' % (lit, lit), 'module M\nstruct S { a: [t::u("%s")] Sequence<int32> }\n' % lit,
                  'module M\n[deprecated("%s' % lit, 'module M\n[deprecated("%s\n")] struct S {}\n' % lit]
    # every inheritance graph and every containment graph over three definitions (a tail leading into a cycle, in every definition order)
    pairs3 = [(a, b) for a in range(3) for b in range(3)]
    for mask in range(512):
        es = [(a, b) for k, (a, b) in enumerate(pairs3) if mask >> k & 1]
        forms.append("module M\n" + "".join("interface I%d%s { op%d() }\n" % (i, (" : " + ", ".join("I%d" % b for (a, b) in es if a == i)) if any(a == i for a, _ in es) else "", i) for i in range(3)))
        forms.append("module M\n" + "".join("struct T%d { %s }\n" % (i, ", ".join("f%d: %s" % (k, ("T%d?" if (a + b + k) % 3 == 0 else ("Sequence<T%d>" if (a + b + k) % 3 == 1 else "T%d")) % b) for k, (a, b) in enumerate(es) if a == i)) for i in range(3))
                     + "struct U { d: Dictionary<int32, T0>, e: T1, f: T2 }\n")
        # the same graphs over compact structs that are used as dictionary keys (key checks walk the fields of a key type), the user before and after them
        body = "".join("compact struct K%d { n: int32%s }\n" % (i, "".join(", f%d: K%d" % (k, b) for k, (a, b) in enumerate(es) if a == i)) for i in range(3))
        user = "struct U%d { d: Dictionary<K%d, bool>, e: K%d }\n" % (mask % 3, mask % 3, (mask // 3) % 3)
        forms.append("module M\n" + (user + body if mask % 2 else body + user))
    # every kind of doc comment content on every kind of element that can carry one (tags that do not fit the element included)
    bodies = ["/// text {@link S}", "/// @param x: see {@link S} and {@link Nope}", "/// @returns: a {@link M::S}", "/// @returns x: {@link S}", "/// @see S\n/// @see Nope", "/// @throws Nope: when {@link S}",
              "/// {@link S", "/// {@link }", "/// {@link S} {@link S} {@link S}", "/// @param", "/// @param x", "/// @foo {@link S}", "/// @param x: a\n///   {@link S}\n/// @returns: b\n///   {@link S}",
              "/// {@param x}", "/// @see", "/// @\n/// {@}", "///\n///\n/// @param p: {@link p}",
              # comments that start right after the slashes, with nothing, with non-ASCII text, with wide white space
              "///", "///été", "///\u3000text", "///\n///", "///é\n///\té", "///😀 {@link S}", "//// four slashes\n///x"]
    hosts = ["%sstruct S2 {}", "struct S2 {\n%sa: int32 }", "%sinterface I {}", "interface I {\n%sop(p: int32) -> int32 }", "interface I {\n%sop(p: int32) -> (a: int32, b: int32) }", "interface I {\n%sop() }",
             "%senum E { A }", "enum E {\n%sA }", "enum E {\n%sA(x: int32) }", "enum E { A(\n%sx: int32) }", "%scustom C", "%stypealias T = int32", "%sunchecked enum E2 : uint8 {}",
             # places where a doc comment is not allowed (what is said about it quotes the comment)
             "interface I { op(\n%sp: int32) }", "interface I { op(p: int32,\n%sq: bool) -> bool }", "interface I { op() -> (\n%sa: int32, b: bool) }", "interface I { op() -> (a: int32,\n%sb: bool) }",
             "%smodule Late", "struct S3 { a:\n%sint32 }", "interface I { op() ->\n%sbool }"]
    for b in bodies:
        for h in hosts:
            forms.append("module M\nstruct S {}\n" + h % (b + "\n") + "\n")
    # every white-space character (and a few look-alikes) at every gap of preprocessor directives, and in ordinary source
    spaces = ["\x0b", "\x0c", "\x1c", "\x1f", "\x85", "\xa0", "\u1680", "\u2000", "\u2003", "\u200a", "\u2028", "\u2029", "\u202f", "\u205f", "\u3000", "\u200b", "\ufeff", "\u180e", "\r", "\t", "\0"]
    for w in spaces:
        for tpl in ["#define%sFOO\nmodule M\n", "#define FOO%s\nmodule M\n", "#%sdefine FOO\nmodule M\n", "%s#define FOO\nmodule M\n", "#undef%sFOO\nmodule M\n", "#if%sFOO\nmodule M\n#endif\n", "#if FOO%s\nmodule M\n#endif\n",
                    "#if FOO%s&& BAR\nmodule M\n#endif\n", "#if !%sFOO\nmodule M\n#endif\n", "#if (%sFOO )\nmodule M\n#endif\n", "#if FOO\n#elif%sBAR\nmodule M\n#endif\n", "#if FOO\nmodule M\n#else%s\nmodule N\n#endif%s\n",
                    "#if FOO ||%s\nmodule M\n#endif\n", "module M%s\nstruct S {%sa: int32%s}\n", "module M\n[x::a(%sb,%s\"c\")] struct S {}\n", "module M\n///%s@param%sx:%sy\ninterface I { op(x: bool) }\n",
                    "module M\nstruct S { tag(%s1%s) a: bool? }\n"]:
            forms.append(tpl.replace("%s", w))
    # directives cut short at the end of their line, and long non-ASCII tokens where none is expected (what the error message has to quote)
    for d in ["#if ", "#if", "#if A &&", "#if A && ", "#if (", "#if !", "#define", "#define\t", "#undef ", "#elif ", "#if A ||\t", "#else x", "#endif x", "# ", "#"]:
        forms.append("module M\n" + d + "\nstruct S {}\n")
        forms.append(d + "\n")
        forms.append("module M\n" + d)
    for k in range(40, 56):
        long_ = "a" * (k % 3) + "é" * k
        forms += ["module M\nstruct S { a: \"%s\" }\n" % long_, "module M\nstruct S { a:\n/// %s\nint32 }\n" % long_, "module M\nstruct %s {}\n" % long_, "module \"%s\"\n" % long_,
                  "module M\n[x::a(\"%s\" \"%s\")] struct S {}\n" % (long_, long_), "module M\nstruct S {} /// %s" % long_, "module M\ninterface I { op() -> \"%s😀\" }\n" % long_]
    # every prefix of programs that carry a doc comment (well-formed, malformed, with broken links) and an allow attribute on every kind of element:
    # what was already reported about an element must stay harmless when a syntax error follows it, wherever the text stops
    rich = [
        "module M\nenum E {\n    /// a {@link\n    [allow(All)] A(\n        /// {@link Nope} @x\n        [allow(BrokenDocLink)] f: int32,\n        /// @param\n        g: Sequence<E?>\n    ) = 3\n    /// @see\n    B\n}\n"
        "/// {@link E::A::f}\n[allow(MalformedDocComment)] struct S {\n    /// {@link\n    a: E,\n    /// @returns x\n    tag(1) b: int32?\n}\n",
        "module M\ninterface I {\n    /// @param p: {@link\n    /// @returns: x {@link I::op::p}\n    [allow(All)] op(\n        [deprecated] p: int32,\n        q: Dictionary<string, I2?>\n    ) -> (\n        /// nope\n        r: bool,\n        s: stream int32\n    )\n    /// @throws\n    op2() -> string\n}\n/// {@link I::op}\ninterface I2 : I {}\n",
        "[[allow(All)]]\n/// doc\nmodule M\n/// {@link\n[deprecated(\"x\")] typealias A = [x::y] Sequence<B>\n/// @see B {@link A}\ncustom B\nunchecked enum U : uint8 {\n    /// {@\n    X = 1,\n    Y\n}\n#if X\nstruct T { a: A }\n#else\n/// {@link\nstruct T { u: U }\n#endif\n",
    ]
    for t in rich:
        forms += [t[:k] for k in range(1, len(t))]
        forms += [t[:k] + tail for k in range(20, len(t), 7) for tail in ("}", " B", "\n}\nstruct Z {", " !", ")")]
    # every form once more with CRLF line ends (diagnostics are also rendered with their snippets by the harness)
    forms += [t.replace("\n", "\r\n") for t in forms if len(t) < 400 and "\r" not in t]
    o3 = core.run_impl("diags", ["diags - " + hx(t) for t in forms], chunk=200, timeout=120)
    ck.stream("forms", description="all forms with LF and with CRLF line ends, diagnostics rendered with snippets; every prefix (also followed by a stray token) of four programs with doc comments, links and allow attributes on every kind of element; directives cut short at the end of their line; long non-ASCII tokens in unexpected places; every Unicode white-space character (and zero-width look-alikes, NUL) at every gap of every preprocessor directive and of ordinary source; every inheritance and containment graph over three definitions (containment also over compact structs used as dictionary keys); 24 doc comment bodies (links in overviews and in every tag, tags that do not fit, unterminated and empty links, comments that start right after the slashes with nothing, non-ASCII text or wide white space) on 20 kinds of element and places where none is allowed (parameters, return members, modules, types); every type form (primitive, optional, sequence, dictionary, result, struct/enum/interface/custom/alias names, global, unknown, module name, nested, attributed, malformed) in every type position "
              "(field, base, second base, underlying type, alias target, dictionary key/value, parameter, return tuple, enumerator field, tagged, compact, streamed, element, link); containment/alias/inheritance cycles; "
              "every program of three aliases over {name, sequence, dictionary, result} x {A, B, C, int32} (4096, exhaustive); malformed and boundary integer literals in every literal position; string literals with a backslash before characters of every width; mixed-width and CRLF doc comments; deep nesting (300), long lists (3000), long chains (300-400), unterminated constructs")
    for t, oo in zip(forms, o3):
        ck.count("forms", t)
        if classify(oo) == "CRASH":
            ck.violation("forms", "crash", t[:600], "diagnostics", oo[:300], signature={"head": t[:40]})
    # ---------------------------------------------------------------- 3b. several files: names that keywords spell, written with a backslash, next to the keywords' ordinary use
    KW = ["bool", "int8", "uint8", "int16", "uint16", "int32", "uint32", "varint32", "varuint32", "int64", "uint64", "varint62", "varuint62", "float32", "float64", "string",
          "module", "struct", "enum", "interface", "custom", "typealias", "Sequence", "Dictionary", "Result", "compact", "unchecked", "idempotent", "stream", "tag", "AnyClass"]
    multi = []
    for kw in KW:
        user = "module M\nstruct S { a: %s, b: Sequence<%s?>, c: Dictionary<string, int32> }\ninterface I { op(p: %s) -> bool }\n" % ((kw,) * 3) if kw in KW[:16] else "module M\nstruct S { a: int32, s: string }\n"
        for named in ("module \\%s\n" % kw, "module \\%s::Inner\ncustom C\n" % kw, "module Outer::\\%s\nstruct \\%s { \\%s: bool }\n" % ((kw,) * 3),
                      "module X\nstruct \\%s {}\nstruct U { a: \\%s }\n" % (kw, kw), "module X\ntypealias \\%s = bool\nenum E { \\%s }\n" % (kw, kw)):
            multi += [[named, user], [user, named], [named, user, named.replace("Inner", "Other")]]
    o3b = core.run_impl("diags", ["diags - " + " ".join(hx(t) for t in ts) for ts in multi], chunk=100, timeout=120)
    ck.stream("several-files", description="two and three files in every order: a module, a nested module, a definition, a field, an alias or an enumerator named by a keyword written with a backslash "
              "(every primitive type's keyword and 15 others), next to a file that uses the keyword in the ordinary way")
    for ts, oo in zip(multi, o3b):
        case = "\n-- next file --\n".join(ts)
        ck.count("several-files", case)
        if classify(oo) == "CRASH":
            ck.violation("several-files", "crash", case[:600], "diagnostics", oo[:300], signature={"head": ts[0][:24].split("\n")[0].rstrip("0123456789")})
    # ---------------------------------------------------------------- 4. time: growth on dense dependency graphs
    # Quick tier: the time for n definitions is measured at three sizes below 2 KiB; doubling times per added pair of definitions
    # (growth by more than 8x over +4 definitions while the input grows by a quarter) is exponential growth and breaks the bound
    # of 20 s for 8 KiB well below 8 KiB.  Thorough tier: the inputs at the size that exceeds the budget are run as well.
    fams = (("dense-dag", dense_dag, 20), ("nested-keys", nested_keys, 18), ("dense-inheritance", dense_inheritance, 19), ("alias-fan", alias_fan, 20))
    ck.stream("time-bound", description="families whose definitions depend on all later ones (containment, compact key structs referenced twice per level, inheritance from every earlier interface, "
              "aliases used twice per level): time at n, n+2, n+4 definitions (all below 3.1 KiB); in the thorough tier also the smallest n that exceeds 20 s while staying below 8 KiB")
    for fam, gen, n0 in fams:
        times = []
        for nn in (n0, n0 + 2, n0 + 4):
            text = gen(nn)
            best = None
            for _ in range(2):
                t1 = time.time()
                oo = core.run_lines([core.HARNESS, "diags"], ["diags - " + hx(text)], timeout=25)[0]
                dt = time.time() - t1
                best = dt if best is None else min(best, dt)
            times.append((nn, len(text.encode()), best, oo))
            ck.count("time-bound", "%s %d" % (fam, nn), kind=fam)
        st = ck.stream("time-bound")
        st.setdefault("seconds", {})[fam] = {"n=%d (%d bytes)" % (a, b): round(c, 3) for a, b, c, _ in times}
        crashed = [t for t in times if classify(t[3]) == "CRASH"]
        if crashed:
            ck.violation("time-bound", "timeout" if "timeout" in crashed[0][3] else "crash", "%s with n = %d (%d bytes)" % (fam, crashed[0][0], crashed[0][1]), "a verdict within 20 s", crashed[0][3][:100],
                         signature={"family": fam})
            continue
        base = max(times[0][2], 0.02)
        if times[2][2] / base > 6 and times[2][2] > 0.25:
            ck.violation("time-bound", "exponential-time", "%s: %s" % (fam, ", ".join("n=%d (%d bytes): %.2f s" % (a, b, c) for a, b, c, _ in times)),
                         "time growing gently with the size of the input (the input grew by %d%%)" % (100 * (times[2][1] - times[0][1]) // times[0][1]),
                         "time grew %.0f-fold over four more definitions: 20 s are exceeded well below 8 KiB" % (times[2][2] / base), signature={"family": fam})
        if ck.tier == "thorough":
            for nn in range(n0 + 6, 64, 2):
                text = gen(nn)
                if len(text.encode()) > 8192:
                    break
                t1 = time.time()
                oo = core.run_lines([core.HARNESS, "diags"], ["diags - " + hx(text)], timeout=21)[0]
                dt = time.time() - t1
                st["seconds"][fam]["n=%d (%d bytes)" % (nn, len(text.encode()))] = round(dt, 2)
                if classify(oo) == "CRASH":
                    ck.violation("time-bound", "exceeds-20s", "%s with n = %d (%d bytes)" % (fam, nn, len(text.encode())), "a verdict within 20 s", oo[:60] + " after %.1f s" % dt, signature={"family": fam})
                    break
    # ---------------------------------------------------------------- 5. the binary: option values, empty strings, file sets
    vals = ["", " ", "x", "X,Y", "All", "all", "Nope", "=", ",", "a=b", "/nonexistent/gen", "--", "-", "ü", "\t", "human", "json", "JSON", "xml", "0"]
    lines, metas = [], []
    nb = 300 if ck.tier == "quick" else 3000
    for i in range(nb):
        extra = []
        for _ in range(rng.choice([0, 1, 1, 2, 3])):
            opt = rng.choice(["-D", "-A", "--allow", "-G", "--generator", "--diagnostic-format", "-O", "--output-dir", "-R", "--dry-run", "--disable-color"])
            if opt in ("--dry-run", "--disable-color"):
                extra.append(opt)
            elif rng.random() < 0.3:
                extra.append(opt + "=" + rng.choice(vals))
            else:
                extra += [opt, rng.choice(vals)]
        files = []
        for j in range(rng.choice([0, 1, 1, 2, 3])):
            files.append((rng.choice("SSR"), "f%d.slice" % j, rng.choice(["", "module M%d\n" % j, "module M\nstruct S%d {}\n" % j, "// c\n", "struct X {}\n", "module M\nstruct S { a: Nope }\n", "﻿", "#if X\n",
                # values at the ends of every range: what is compiled is also handed to the generators (with or without any)
                "module M%d\nenum E : uint64 { A = 9223372036854775808, B = 18446744073709551615, C = 0 }\nenum F : int64 { A = -9223372036854775808, B = 9223372036854775807 }\nunchecked enum G : varuint62 { A = 4611686018427387903 }\n"
                "enum H { A = 2147483647, B(tag(2147483647) x: int32?) = 0 }\nstruct T { tag(0) a: bool?, tag(2147483647) b: bool? }\n" % j])))
        if rng.random() < 0.15:
            # a reference directory that contains itself through symbolic links (one link, two links, two directories linking to each other)
            files.append(("R", "refs/r.slice", "module R\ncustom C\n"))
            for nm, tgt in rng.choice([[("refs/self", ".")], [("refs/self", "."), ("refs/again", ".")], [("refs/up", ".."), ("refs/self", ".")],
                                       [("refs/a/to_b", "../b"), ("refs/b/to_a", "../a"), ("refs/b/up", "../..")]]):
                if "/a/" in nm or "/b/" in nm:
                    files.append(("X", "refs/a/x.slice", "module A\ncustom X\n"))
                    files.append(("X", "refs/b/y.slice", "module B\ncustom Y\n"))
                files.append(("L", nm, tgt))
            extra += ["-R", "refs"]
        if rng.random() < 0.12:
            # a reference directory with files and directories whose names are not UTF-8
            files.append(("R", "odd/ok.slice", "module Odd\ncustom C\n"))
            files.append(("B", rng.choice([b"odd/caf\xe9.slice", b"odd/\xff\xfe.slice", b"odd/sub\xe9/inner.slice", b"odd/\xc3(.slice"]), "module Bytes%d\ncustom B\n" % i))
            extra += ["-R", "odd"]
        gens = [("gen-%s-%d" % (rng.choice(["ok", "ok", "bigstderr", "bigout", "bigboth", "stderr", "exit1", "noread", "sigkill", "empty"]), g), rng.choice([None, "a=b", "k"]), None) for g in range(rng.choice([0, 0, 1, 2]))]
        lines.append(dc.run_line(False, extra, gens, files))
        metas.append((extra, files, gens))
    o5 = dc.run_all(lines, chunk=15, timeout=120)
    ck.stream("command-lines", description="the real binary with random -D/-A/-G/-O/-R/--diagnostic-format/--dry-run options whose values include the empty string, blanks, separators, unknown names; "
              "0-3 files including empty, comment-only, module-less, BOM-only and directive-only ones; 0-2 generators that behave, fail, or write a megabyte to stderr, stdout or both; reference directories that contain themselves through symbolic links or hold files whose names are not UTF-8; enumerator values and tags at the ends of their ranges")
    for (extra, files, gens), line, oo in zip(metas, lines, o5):
        case = "options: %r\nfiles: %r" % (extra, [(k, n, t) for k, n, t in files])
        ck.count("command-lines", line)
        r = dc.parse_run(oo)
        if r is None:
            ck.violation("command-lines", "crash-or-hang", case, "an exit status", oo[:300])
        elif r["exit"] not in ("0", "1", "2"):
            ck.violation("command-lines", "abnormal-exit", case, "exit status 0, 1 or 2 (usage)", "exit=%s %s" % (r["exit"], r["stderr"][-400:].decode("utf-8", "replace")))
    ck.samples.append({"stream": "token-soups", "case": soups[777], "impl": o[777][:200], "model": m[777][:200]})
    ck.extra["exhaustive"] = True
    ck.extra["rule"] = ("bounded-exhaustive: all %d token sequences of length <= %d; %d mutated programs; %d forms/cycles/stress inputs; %d timed inputs; %d command lines. Distinct by text." %
                        (len(soups), depth, n, len(forms), 12, nb))
    ck.partial.append("stack depth and wall-clock time are properties of the running process: the models give verdicts and fuel bounds, the crash/hang search is the correspondence run; clap's own parsing is exercised, not modelled")
