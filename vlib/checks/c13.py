"""C13: lint suppression."""
import itertools
from .. import core
from ..front_common import hx, split_dump, child

ALLOWED_AXIOMS = ()
COMPONENT = "lints"
NEEDS_SLICEC = True
LINTS = ["Deprecated", "BrokenDocLink", "IncorrectDocComment", "MalformedDocComment"]
DOC = {"BrokenDocLink": "/// {@link Nope}", "IncorrectDocComment": "/// @param zz: nothing", "MalformedDocComment": "/// @foo bar",
       # other producers of MalformedDocComment: comments whose pieces are all legal but do not fit the comment grammar, and unterminated links
       "MalformedDocComment/param-without-name": "/// @param", "MalformedDocComment/see-without-target": "/// @see", "MalformedDocComment/empty-link": "/// {@link}",
       "MalformedDocComment/param-two-names": "/// @param a b: text", "MalformedDocComment/unterminated-link": "/// {@link X", "MalformedDocComment/link-two-names": "/// see {@link A B} there",
       "MalformedDocComment/returns-two-names": "/// @returns a b: text"}


def build(kind, pos, slots):
    """text of file 0 for a lint of `kind` concerning the element at `pos`; slots: placement -> attribute text ('' if none)."""
    s = lambda k: slots.get(k, "")
    dep = kind == "Deprecated"
    doc = "" if dep else DOC[kind] + "\n"
    if kind == "IncorrectDocComment" and pos in ("op",):
        doc = "/// @param nosuch: x\n"
    T = "Old" if dep else "int32"
    if pos.endswith("-nested"):
        # the deprecated type sits inside an anonymous type of the member: the lint still concerns that member
        pos = pos[:-len("-nested")]
        T = {"field": "Sequence<Old?>", "param": "Dictionary<int32, Sequence<Old>>", "ret": "Result<bool, Old>", "efield": "Sequence<Sequence<Old>>", "alias": "Dictionary<string, Old?>"}[pos]
    L = []
    L.append(s("file0"))
    L.append("module M")
    L.append("[deprecated] struct Old {}")
    L.append(s("other") + "struct Other { o: int32 }")
    if pos in ("field", "struct"):
        L.append((doc if pos == "struct" else "") + s("def") + "struct S {")
        L.append("    " + (doc if pos == "field" else "") + s("member") + "a: " + (T if pos == "field" else "int32") + ",")
        L.append("    " + s("sibling") + "b: int32,")
        L.append("}")
    elif pos in ("op-single", "op-void"):
        # other producers of IncorrectDocComment on an operation: a named @returns tag on a single unnamed return value, a @returns tag on an operation that returns nothing
        doc2 = "/// @returns value: x\n" if pos == "op-single" else "/// @returns: nothing at all\n"
        L.append(s("def") + "interface I {")
        L.append("    " + doc2 + s("op") + "op(" + s("sibling") + "p: int32, q: bool)" + (" -> int32" if pos == "op-single" else ""))
        L.append("    " + s("sibling2") + "other()")
        L.append("}")
    elif pos in ("param", "ret", "op", "iface", "param-twin", "ret-twin"):
        # -twin: the parameter and the return member have the same name (they share a scope and a scoped identifier)
        twin, pos_ = pos.endswith("-twin"), pos.replace("-twin", "")
        L.append((doc if pos_ == "iface" else "") + s("def") + "interface I {")
        L.append("    " + (doc if pos_ == "op" else "") + s("op") + "op(" + s("member" if pos_ == "param" else "sibling") + "p: " + (T if pos_ == "param" else "int32") + ", q: bool) -> ("
                 + s("member" if pos_ == "ret" else "sibling2") + ("p" if twin else "r") + ": " + (T if pos_ == "ret" else "int32") + ", t: bool)")
        L.append("}")
    elif pos in ("efield", "enumerator", "enum"):
        L.append((doc if pos == "enum" else "") + s("def") + "enum E {")
        L.append("    " + (doc if pos == "enumerator" else "") + s("op") + "A(" + (doc.replace("\n", "\n        ") if pos == "efield" else "") + s("member" if pos == "efield" else "sibling") + "x: " + (T if pos == "efield" else "int32") + "),")
        L.append("    " + s("sibling2") + "B,")
        L.append("}")
    elif pos == "base":
        L.append("[deprecated] interface OldBase {}")
        L.append(s("sibling") + "struct Before { " + s("sibling2") + "z: bool }")
        L.append(s("member") + "interface I : OldBase {")
        L.append("    " + s("op") + "op()")
        L.append("}")
    elif pos == "alias":
        L.append(doc + s("member") + "typealias A = " + T)
        L.append(s("sibling") + "typealias A2 = int32")
    return "\n".join(x for x in L if x != "") + "\n"


# which placements enclose (or are) the element concerned, per position
ENCLOSING = {"field-nested": ["member", "def"], "param-nested": ["member", "op", "def"], "ret-nested": ["member", "op", "def"], "efield-nested": ["member", "op", "def"], "alias-nested": ["member"],
             "field": ["member", "def"], "struct": ["def"], "param": ["member", "op", "def"], "ret": ["member", "op", "def"], "param-twin": ["member", "op", "def"], "ret-twin": ["member", "op", "def"], "op": ["op", "def"], "op-single": ["op", "def"], "op-void": ["op", "def"], "iface": ["def"],
             "efield": ["member", "op", "def"], "enumerator": ["op", "def"], "enum": ["def"], "alias": ["member"], "base": ["member"]}
SLOTS = {"field-nested": ["def", "member", "sibling"], "param-nested": ["def", "op", "member", "sibling", "sibling2"], "ret-nested": ["def", "op", "member", "sibling", "sibling2"],
         "efield-nested": ["def", "op", "member", "sibling2"], "alias-nested": ["member", "sibling"],
         "field": ["def", "member", "sibling"], "struct": ["def", "member", "sibling"], "param": ["def", "op", "member", "sibling", "sibling2"], "ret": ["def", "op", "member", "sibling", "sibling2"],
         "param-twin": ["def", "op", "member", "sibling", "sibling2"], "ret-twin": ["def", "op", "member", "sibling", "sibling2"],
         "op": ["def", "op", "sibling", "sibling2"], "op-single": ["def", "op", "sibling", "sibling2"], "op-void": ["def", "op", "sibling", "sibling2"], "iface": ["def", "op", "sibling"], "efield": ["def", "op", "member", "sibling2"], "enumerator": ["def", "op", "sibling", "sibling2"],
         "enum": ["def", "op", "sibling2"], "alias": ["member", "sibling"], "base": ["member", "op", "sibling", "sibling2"]}
SCENARIOS = [("Deprecated", p) for p in ("field", "param", "ret", "param-twin", "ret-twin", "efield", "alias", "base", "field-nested", "param-nested", "ret-nested", "efield-nested", "alias-nested")] + \
            [(k, p) for k in ("BrokenDocLink", "MalformedDocComment") for p in ("struct", "field", "iface", "op", "enum", "enumerator", "alias")] + \
            [("IncorrectDocComment", p) for p in ("struct", "field", "iface", "op", "op-single", "op-void", "enum", "alias")] + \
            [(k, p) for k in DOC if "/" in k for p in ("struct", "field", "op", "enumerator")]


def ents_of(files_sx):
    """entities with their allow arguments and parents, keyed by parser-scoped identifier (as Ast::find_element resolves scopes)"""
    ents, idx = [], {}

    def allows(attrs_sx):
        out = []
        for a in attrs_sx[1:]:
            if a[1] == "allow":
                out += [bytes.fromhex(x).decode() if x != "-" else "" for x in a[2]]
        return out

    cur = {"file": 0}

    def add(scoped, attrs_sx, parent, span="-", param=False, under="-"):
        idx[scoped] = len(ents)            # a later entity of the same scoped name takes the entry (parameter and return member), as in the AST
        ents.append((allows(attrs_sx), parent, span, param, cur["file"], under))
        return len(ents) - 1

    def sp4(x):
        # "file:r:c-r:c" or "r:c-r:c" -> "r.c.r.c"
        a, b = x.rsplit("-", 1)
        return ".".join(a.split(":")[-2:] + b.split(":")[-2:])
    fattrs = []
    for fi, f in enumerate(files_sx):
        cur["file"] = fi
        fa = child(f, "attrs")
        fattrs.append(allows(fa))
        mod = child(f, "module")
        m = mod[1]
        for d in child(f, "defs")[1:]:
            k, name = d[0], d[1]
            sc = m + "::" + name
            at = child(d, "attrs")
            dspan = next((x for x in d[2:] if isinstance(x, str) and "-" in x and ":" in x and x[0].isdigit() and x != d[2]), d[2])
            me = add(sc, at, None, sp4(dspan), False, sp4(d[-1][1]) if k == "alias" else "-")
            if k == "struct":
                for fl in child(d, "fields")[1:]:
                    add(sc + "::" + fl[1], child(fl, "attrs"), me, sp4(fl[4]))
            elif k == "interface":
                for o in child(d, "ops")[1:]:
                    oe = add(sc + "::" + o[1], child(o, "attrs"), me, sp4(o[4]))
                    for p in child(o, "params")[1:] + child(o, "rets")[1:]:
                        add(sc + "::" + o[1] + "::" + p[1], child(p, "attrs"), oe, sp4(p[5]), True)
            elif k == "enum":
                for e in child(d, "enumerators")[1:]:
                    espan = next((x for x in e[3:] if isinstance(x, str) and "-" in x and ":" in x and x[0].isdigit()), "-")
                    ee = add(sc + "::" + e[1], child(e, "attrs"), me, sp4(espan) if espan != "-" else "-")
                    fl = child(e, "fields")[1:]
                    for x in ([] if fl == ["-"] else fl):
                        add(sc + "::" + e[1] + "::" + x[1], child(x, "attrs"), ee, sp4(x[4]))
    return ents, idx, fattrs


def run(ck):
    rng = ck.rng
    cases = []   # (kind, pos, cli, slots, expect_silenced or None)
    other_file = "module N\nstruct X { y: int32 }\n"
    for kind, pos in SCENARIOS:
        lint = kind.split("/")[0]
        others = [l for l in LINTS if l != lint]
        argsets = [[lint], ["All"], [others[0]], [others[1], lint], [others[0], others[1]]]
        placements = ["cli", "file0", "file1", "other"] + SLOTS[pos]
        cases.append((kind, pos, [], {}, False))
        for pl in placements:
            for args in argsets:
                names = (lint in args) or ("All" in args)
                silenced = names and (pl in ("cli", "file0") or pl in ENCLOSING[pos])
                if pl == "cli":
                    for variant in (args, [a.lower() for a in args], [a.upper() for a in args]):
                        cases.append((kind, pos, variant, {}, silenced))
                else:
                    cases.append((kind, pos, [], {pl: args}, silenced))
        # two placements at once
        for _ in range(6):
            p1, p2 = rng.sample(placements[1:], 2)
            a1, a2 = rng.choice(argsets), rng.choice(argsets)
            sil = any(((lint in a) or ("All" in a)) and (p in ("file0",) or p in ENCLOSING[pos]) for p, a in ((p1, a1), (p2, a2)))
            cases.append((kind, pos, [], {p1: a1, p2: a2}, sil))

    # lints the parser itself raises are subject to the same suppressions when another file stops the compilation with a syntax error
    more = []
    for kind, pos, cli, slots, silenced in cases:
        if kind.startswith("MalformedDocComment") and (cli or slots) and rng.random() < 0.5:
            more.append((kind, pos, cli, dict(slots, __broken__=["other file"]), silenced))
    # ... and when the error is in the lint's own file
    for kind, pos, cli, slots, silenced in list(cases):
        if kind.startswith("MalformedDocComment") and (cli or slots) and "__broken__" not in slots and rng.random() < 0.35:
            more.append((kind, pos, cli, dict(slots, __broken_same__=[rng.choice(["syntax", "tag"])]), silenced))
    cases += more

    def attr(args, directive="allow"):
        return "[%s(%s)] " % (directive, ", ".join(args))
    lines, base_lines = [], []
    for kind, pos, cli, slots, _ in cases:
        def texts(directive):
            sl = {k: (("[[%s(%s)]]" % (directive, ", ".join(v))) if k in ("file0", "file1") else attr(v, directive)) for k, v in slots.items() if not k.startswith("__broken")}
            t0 = build(kind, pos, sl)
            if "__broken_same__" in slots:
                t0 += "struct {\n" if slots["__broken_same__"] == ["syntax"] else "struct Late { tag(-1) z: int32? }\n"
            t1 = (sl.get("file1", "") + "\n" if "file1" in sl else "") + (other_file if "__broken__" not in slots else "module N\nstruct X { y: int32 }\nstruct {\n")
            return t0, t1
        opts = ",".join("A:" + c for c in cli) or "-"
        t0, t1 = texts("allow")
        lines.append("dump %s %s %s" % (opts, hx(t0), hx(t1)))
        b0, b1 = texts("x::ow")
        base_lines.append("dump - %s %s" % (hx(b0), hx(b1)))
    o = core.run_impl("dump", lines, chunk=300, timeout=120)
    ob = core.run_impl("dump", base_lines, chunk=300, timeout=120)
    mlines, meta = [], []
    st = ck.stream("placement-matrix", description="every lint kind x element position (also: a parameter and a return member of one name, the deprecated type inside an anonymous type of the member) x placement of the suppression (command line incl. case variants, file attribute, other file, enclosing definition/operation, the element itself, siblings, unrelated definition) x argument (that lint, All, another, several); "
                   "observables: level of every diagnostic; diagnostics and AST compared with the same program where 'allow' is replaced by a foreign attribute of the same length")
    for (kind, pos, cli, slots, silenced), line, oo, bb in zip(cases, lines, o, ob):
        ck.count("placement-matrix", line, kind="%s@%s" % (kind, pos))
        files_sx, diags = split_dump(oo)
        bfiles, bdiags = split_dump(bb)
        if files_sx is None or bfiles is None:
            ck.violation("placement-matrix", "crash", line, "a result", oo[:200])
            continue
        lint = kind.split("/")[0]
        target = [d for d in diags if d["code"] == lint]
        # 1. spec oracle: silenced exactly as the property says
        if len(target) != 1:
            ck.violation("placement-matrix", "lint-not-raised-once", bytes.fromhex(line.split(" ")[2]).decode(), "one %s" % lint, repr([d["code"] for d in diags]), kind="correspondence")
            continue
        want = "Allowed" if silenced else "Warning"
        if target[0]["level"] != want:
            fam_ = "silenced-wrongly" if target[0]["level"] == "Allowed" else "not-silenced"
            lint_ = kind.split("/")[0]
            reasons = {k for k, a in slots.items() if not k.startswith("__") and ((lint_ in a) or ("All" in a)) and (k == "file0" or k in ENCLOSING[pos])}
            if fam_ == "not-silenced" and "__broken_same__" in slots and not cli and reasons == {"file0"}:
                fam_ = "file-attribute-lost-when-its-own-file-has-an-error"      # one defect, told apart from any other (a known finding)
            ck.violation("placement-matrix", fam_, bytes.fromhex(line.split(" ")[2]).decode(),
                         "%s is %s (cli=%s, attributes=%s)" % (lint, want, cli, slots), target[0]["level"],
                         signature={"lint": lint, "position": pos, "placement": "+".join(sorted(slots)) or ("cli" if cli else "none"), "case": "exact" if cli == [c for c in cli if c in LINTS + ["All"]] else "other-case"})
        # 2. non-interference: nothing else changes
        strip = lambda ds: [(d["code"], d["span"], d["msg"], tuple(d["notes"])) for d in ds]
        if strip(diags) != strip(bdiags) or any(d["level"] != b["level"] for d, b in zip(diags, bdiags) if d["code"] != lint):
            ck.violation("placement-matrix", "suppression-changes-other-diagnostics", bytes.fromhex(line.split(" ")[2]).decode(), repr(strip(bdiags))[:300], repr(strip(diags))[:300])
        if oo.split(" || ")[0].replace("allow", "x::ow") != bb.split(" || ")[0]:
            ck.violation("placement-matrix", "suppression-changes-the-ast", bytes.fromhex(line.split(" ")[2]).decode(), "the same AST but for the attribute's directive", "the dumps differ",
                         detail="with allow: %s\nwithout:    %s" % (oo.split(" || ")[0][:400], bb.split(" || ")[0][:400]))
        # 3. model: level of every diagnostic from its recorded scope and the attributes the AST shows
        if "__broken_same__" in slots:
            continue      # a file that reported an error keeps neither its attributes nor its definitions in the SliceFile the harness dumps: nothing to give the model
        ml = model_line(files_sx, diags, cli)
        mlines.append(ml)
        meta.append((line, [d["level"] for d in diags]))
    m = core.run_model("lints", mlines, chunk=2000)
    for ml, mo, (line, levels) in zip(mlines, m, meta):
        got = mo.split(" | ")[0].split(" ") if mo else []
        if got != levels:
            ck.violation("placement-matrix", "level-differs-from-model", bytes.fromhex(line.split(" ")[2]).decode(), " ".join(got), " ".join(levels), detail=ml, kind="correspondence")
    errors_untouched(ck)
    accepted_values(ck)
    random_programs(ck)
    ck.samples.append({"stream": "placement-matrix", "case": bytes.fromhex(lines[len(lines) // 2].split(" ")[2]).decode(), "options": lines[len(lines) // 2].split(" ")[1], "model_input": mlines[len(mlines) // 2], "model": m[len(m) // 2], "impl": o[len(lines) // 2][-300:]})
    ck.extra["exhaustive"] = True
    ck.extra["rule"] = "%d scenarios (lint kind x position) x every placement x 5 argument sets (+ lower/upper-case command-line values, + random double placements): %d template programs; distinct by program text and options" % (len(SCENARIOS), len(cases))
    ck.partial.append("DuplicateFile (no span, no scope, command line only) is exercised by the file-set check (C17); the generator request is compared in C08")


def model_line(files_sx, diags, cli):
    """input of the Coq model for one compilation: command-line allow list, file attributes, entity table (allow arguments, parent),
    and every diagnostic with the file and entity it was reported for"""
    ents, idx, fattrs = ents_of(files_sx)
    ds = []
    for d in diags:
        f = d["span"].split(":")[0].replace("string-", "") if d["span"] != "-" else "-"
        sc = idx.get(d["scope"], "m") if d["scope"] else None       # m: a scope (a module's) that names no entity
        loc = "-"
        if d["span"] != "-":
            a, b = d["span"].rsplit("-", 1)
            loc = ".".join(a.split(":")[-2:] + b.split(":")[-2:])
        ds.append("%s:%s:%s:%s" % ("E" if d["level"] == "Error" and d["code"].startswith("E") else d["code"], f, "-" if sc is None else sc, loc))
    return "lint %s F %s E %s D %s" % (",".join(cli) or "-", " ".join(",".join(a) or "-" for a in fattrs),
                                      " ".join("%s:%s:%s:%d:%d:%s" % (",".join(a) or "-", "-" if p is None else p, sp if sp != "-" else "0.0.0.0", 1 if pr else 0, fl, un) for a, p, sp, pr, fl, un in ents), " ".join(ds))


def random_programs(ck):
    """generated programs with deprecated definitions, doc comments that raise each kind of lint and allow attributes scattered over
    every kind of element, file and the command line: the level of every diagnostic is what the model computes from the
    attributes the AST shows, and replacing `allow` by a foreign attribute changes nothing but levels"""
    import random
    from .. import slicegen
    rng = ck.rng
    n = 250 if ck.tier == "quick" else 6000
    docs = [" {@link Nope}", " @foo bar", " @param nosuch: x", " text {@link Missing::Thing} more", " @returns nothing", " @throws Nope: never"]
    lines, base_lines, meta = [], [], []
    for _ in range(n):
        g = slicegen.Gen(random.Random(rng.randrange(1 << 60)), nfiles=rng.choice([1, 2, 2, 3]), depth=2, foreign_attrs=False)
        prog = g.program()
        p_allow, p_doc, p_dep = rng.choice([0.1, 0.3, 0.6]), rng.choice([0.2, 0.5]), rng.choice([0.3, 0.6])

        def allow():
            if rng.random() > p_allow:
                return []
            k = rng.choice([1, 1, 1, 2, 3])
            return [("allow", [rng.choice(LINTS + ["All"]) for _ in range(k)])]

        def doc():
            return [rng.choice(docs)] if rng.random() < p_doc else None
        for f in prog["files"]:
            f["fattrs"] = allow()
            f["mattrs"] = []
            for d in f["defs"]:
                d["attrs"] = allow() + ([("deprecated", [])] if rng.random() < p_dep else [])
                d["doc"] = doc()
                members = []
                if d["kind"] == "struct":
                    members = d["fields"]
                elif d["kind"] == "enum":
                    for e in d["enumerators"]:
                        e["attrs"] = allow()
                        e["doc"] = doc()
                        members += e["fields"] or []
                elif d["kind"] == "interface":
                    for o in d["ops"]:
                        o["attrs"] = allow()
                        o["doc"] = doc()
                        for m in o["params"] + (o["returns"] if len(o["returns"]) != 1 else []):
                            m["attrs"] = allow()
                for m in members:
                    m["attrs"] = allow()
                    m["doc"] = doc()
        cli = [rng.choice(LINTS + ["All", "all", "deprecated"]) for _ in range(rng.choice([0, 0, 0, 1, 2]))]
        texts = slicegen.render(prog)
        opts = ",".join("A:" + c for c in cli) or "-"
        lines.append("dump %s %s" % (opts, " ".join(hx(t) for t in texts)))
        base_lines.append("dump - %s" % " ".join(hx(t.replace("[allow(", "[x::ow(")) for t in texts))
        meta.append((texts, cli))
    o = core.run_impl("dump", lines, chunk=100, timeout=180)
    ob = core.run_impl("dump", base_lines, chunk=100, timeout=180)
    ck.stream("random-programs", description="generated programs (1-3 files, every definition kind) with deprecated definitions, doc comments raising each lint kind on definitions, fields, "
              "operations and enumerators, allow attributes with 1-3 arguments on files, definitions, operations, enumerators, fields, parameters and return members, and a command-line allow list "
              "(incl. other-case spellings); observables: level of every diagnostic against the model; all diagnostics and the AST against the same program with allow replaced by a foreign attribute")
    mlines, mmeta = [], []
    nd = {"Warning": 0, "Allowed": 0, "Error": 0}
    for (texts, cli), line, oo, bb in zip(meta, lines, o, ob):
        files_sx, diags = split_dump(oo)
        bfiles, bdiags = split_dump(bb)
        shown = "\n// ---- next file\n".join(texts) + "\n// command line: " + " ".join("-A " + c for c in cli)
        ck.count("random-programs", line, kind="files=%d,cli=%d" % (len(texts), len(cli)))
        if files_sx is None or bfiles is None:
            ck.violation("random-programs", "crash", shown, "a result", (oo if files_sx is None else bb)[:200])
            continue
        for d in diags:
            nd[d["level"]] = nd.get(d["level"], 0) + 1
        strip = lambda ds: [(d["code"], d["span"], d["msg"], tuple(d["notes"])) for d in ds]
        if strip(diags) != strip(bdiags) or any(d["level"] != b["level"] for d, b in zip(diags, bdiags) if d["code"].startswith("E") and d["code"][1:].isdigit()):
            ck.violation("random-programs", "suppression-changes-other-diagnostics", shown, repr(strip(bdiags))[:300], repr(strip(diags))[:300])
            continue
        if oo.split(" || ")[0].replace("allow", "x::ow") != bb.split(" || ")[0]:
            ck.violation("random-programs", "suppression-changes-the-ast", shown, "the same AST but for the attribute's directive", "the dumps differ")
        if any(b["level"] == "Allowed" for b in bdiags):
            ck.violation("random-programs", "silenced-without-allow", shown, "no Allowed diagnostic without allow", repr([(b["code"], b["level"]) for b in bdiags])[:300])
        mlines.append(model_line(files_sx, diags, [c for c in cli]))
        mmeta.append((shown, [d["level"] for d in diags]))
    m = core.run_model("lints", mlines, chunk=2000)
    for ml, mo, (shown, levels) in zip(mlines, m, mmeta):
        got = [x for x in mo.split(" | ")[0].split(" ") if x] if mo else []
        if got != levels:
            ck.violation("random-programs", "level-differs-from-model", shown, " ".join(got), " ".join(levels), detail=ml, kind="correspondence")
    ck.extra["random_programs_diagnostic_levels"] = nd
    if nd["Allowed"] < n // 10 or nd["Warning"] < n // 10:
        ck.violation("random-programs", "generator-vacuous", "levels seen: %r" % nd, "both silenced and reported lints in quantity", repr(nd), kind="correspondence")


ERROR_PROGRAMS = [
    "module M\n%(def)senum E : int8 {}\n/// {@link Nope}\nstruct S {}\n",
    "module M\n%(def)sstruct S { %(member)stag(1) a: int32 }\n[deprecated] struct Old {}\nstruct U { o: Old }\n",
    "module M\n%(def)sstruct S { %(member)sa: Nope }\n",
    "module M\n%(def)sstruct S { a: int32 }\n%(def)sstruct S { b: bool }\n",
    "module M\n%(def)sstruct S { %(member)sa: S }\n",
    "module M\n%(def)sinterface I { %(member)sop(stream a: int32, b: int32) }\n/// @param x: y\nstruct T {}\n",
    "module M\n%(def)sstruct S { a: }\n",
    "module M\n%(def)scompact struct S {}\n[deprecated] custom C\ntypealias A = C\n",
]


def accepted_values(ck):
    """every --allow value the command line accepts silences the lint it names: a value is either refused (usage error) or effective"""
    from .. import driver_common as dc
    rng = ck.rng
    prog = {"Deprecated": "module M\n[deprecated] struct Old {}\nstruct S { a: Old }\n", "BrokenDocLink": "module M\n/// {@link Nope}\nstruct S {}\n",
            "IncorrectDocComment": "module M\n/// @param zz: x\nstruct S {}\n", "MalformedDocComment": "module M\n/// @foo bar\nstruct S {}\n"}
    lines, meta = [], []
    for lint, text in prog.items():
        for v in [lint, lint.lower(), lint.upper(), " " + lint, lint + " ", "  " + lint.lower() + "  ", lint + "\r", lint + "\t", "\u00a0" + lint, lint + "s", lint[:-1], "All", "all", " All", "ALL ", "a l l", "", lint + "," + "All", "-" + lint]:
            for form in ("--allow", "-A", "--allow="):
                extra = ["--diagnostic-format", "json", "--dry-run"] + ([form + v] if form.endswith("=") else [form, v])
                lines.append(dc.run_line(False, extra, [], [("S", "a.slice", text)]))
                meta.append((lint, v, form))
    o = dc.run_all(lines, chunk=20)
    ck.stream("accepted-values", description="the slicec binary with --allow/-A values spelled exactly, in other case, with blanks, tabs, a carriage return or a no-break space around them, misspelled, empty, joined by a comma: "
              "a value is either refused with a usage error or silences the lint it names (nothing is accepted and then ignored)")
    for (lint, v, form), line, oo in zip(meta, lines, o):
        ck.count("accepted-values", line, kind="%s %r" % (form, v.replace(lint, "L").replace(lint.lower(), "l").replace(lint.upper(), "LL")))
        r = dc.parse_run(oo)
        if r is None or r["exit"] not in ("0", "1", "2"):
            ck.violation("accepted-values", "crash", "%s %r" % (form, v), "exit 0 or a usage error", oo[:200])
            continue
        if r["exit"] == "2":
            continue          # refused: nothing was promised
        warned = [d for d in dc.json_diags(r["stderr"]) if d.get("error_code") == lint and d.get("severity") == "warning"]
        names = v.strip().lower() in (lint.lower(), "all")
        if warned and names:
            ck.violation("accepted-values", "accepted-value-does-not-silence", "%s %r on\n%s" % (form, v, prog[lint]), "refused (exit 2) or %s silenced" % lint, "accepted, %s still a warning" % lint, signature={"form": form})
        elif not warned and not names:
            ck.violation("accepted-values", "silenced-by-a-value-that-does-not-name-it", "%s %r on\n%s" % (form, v, prog[lint]), "%s reported" % lint, "silenced", signature={"form": form})


def errors_untouched(ck):
    """errors are never silenced: whatever is allowed, wherever, every error keeps its level and the error total is unchanged"""
    lines, meta = [], []
    for prog in ERROR_PROGRAMS:
        for cli in ([], ["All"], ["all"], LINTS, ["Deprecated", "All"]):
            for slots in ({}, {"file0": "[[allow(All)]]\n"}, {"def": "[allow(All)] "}, {"member": "[allow(All)] "}, {"def": "[allow(All)] ", "member": "[allow(Deprecated, BrokenDocLink)] ", "file0": "[[allow(All)]]\n"}):
                text = slots.get("file0", "") + prog % {"def": slots.get("def", ""), "member": slots.get("member", "")}
                opts = ",".join("A:" + c for c in cli) or "-"
                lines.append("dump %s %s" % (opts, hx(text)))
                meta.append((text, cli, slots, prog))
    o = core.run_impl("dump", lines, chunk=100, timeout=120)
    base = {}
    ck.stream("errors-untouched", description="8 programs with an error of a different phase each (empty enum, tag on a non-optional, unresolved type, redefinition, cycle, stream rule, syntax, empty compact struct), "
              "some also raising lints, x command-line allow lists (All, all, every lint, Deprecated+All) x allow(All) on the file, the definition, the member, and all three at once: "
              "every error keeps level Error and the set of errors equals that of the unsuppressed program")
    for (text, cli, slots, prog), line, oo in zip(meta, lines, o):
        ck.count("errors-untouched", line, kind="cli" if cli else ("attrs" if slots else "none"))
        _, diags = split_dump(oo)
        if diags is None:
            ck.violation("errors-untouched", "crash", text, "a result", oo[:200])
            continue
        errs = sorted((d["code"], d["msg"]) for d in diags if d["code"].startswith("E") and d["code"][1:].isdigit())
        silenced = [d for d in diags if d["code"].startswith("E") and d["code"][1:].isdigit() and d["level"] != "Error"]
        if silenced:
            ck.violation("errors-untouched", "error-silenced", text, "%s keeps level Error (cli=%s, attributes=%s)" % (silenced[0]["code"], cli, sorted(slots)), silenced[0]["level"],
                         signature={"placement": "cli" if cli else "+".join(sorted(slots))})
        if not cli and not slots:
            base[prog] = errs
        elif prog in base and errs != base[prog]:
            ck.violation("errors-untouched", "errors-changed-by-suppression", text, repr(base[prog])[:200], repr(errs)[:200])
        if not errs:
            ck.violation("errors-untouched", "generator-invalid", text, "an error", "none", kind="correspondence")
