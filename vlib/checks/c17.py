"""C17: each input file is compiled exactly once: sources first, in the order given."""
import os, shutil, random
from .. import core
from ..front_common import hx, unhx, parse_diags

ALLOWED_AXIOMS = ()
COMPONENT = "fileset"
SCRATCH = os.path.join(core.CACHE, "scratch")


def build_tree(rng, root, idx):
    """a random directory tree below root; returns the relative paths of files/dirs/links created"""
    os.makedirs(root)
    dirs, files, n = [""], [], 0
    for _ in range(rng.choice([1, 2, 3])):
        parent = rng.choice(dirs)
        if parent.count("/") < 3:
            d = os.path.join(parent, rng.choice(["a", "b", "dir.slice", "sub", "ü", "refs,old", "k=v"]) + str(len(dirs)))
            os.makedirs(os.path.join(root, d))
            dirs.append(d)
    for _ in range(rng.choice([2, 3, 4, 6])):
        parent = rng.choice(dirs)
        n += 1
        name = rng.choice(["f%d.slice", "g%d.slice", "x.y%d.slice", "notes%d.txt", "f%d.slice.bak", ".slice", "h%d.SLICE", "noext%d", "..%d.slice", "types,v%d.slice", "a=b%d.slice", "sp ace%d.slice"])
        name = name % n if "%d" in name else name
        p = os.path.join(parent, name)
        full = os.path.join(root, p)
        if os.path.exists(full):
            continue
        if rng.random() < 0.08 and name.endswith(".slice"):
            open(full, "wb").write(b"module Bad\xff\xfe\n")
        elif rng.random() < 0.2:
            # a file with nothing in it for the compiler: empty, a comment, everything inside a region that is not selected -- a file of the set like any other
            open(full, "w").write(rng.choice(["", "\n", "// nothing here\n", "#if LEGACY\nmodule Old%d\nstruct Gone {}\n#endif\n" % n, "/* only a comment */"]))
        else:
            open(full, "w").write("module M%d_%d\nstruct S%d {}\n" % (idx, n, n))
        files.append(p)
    links = []
    for _ in range(rng.choice([0, 1, 2])):
        parent = rng.choice(dirs)
        n += 1
        kind = rng.choice(["file", "file", "dir", "dangling"])
        name = os.path.join(parent, rng.choice(["l%d.slice", "link%d", "l%d.txt"]) % n)
        full = os.path.join(root, name)
        if kind == "file" and files:
            tgt = rng.choice(files)
            os.symlink(os.path.relpath(os.path.join(root, tgt), os.path.dirname(full)), full)
        elif kind == "dir":
            # any directory, also an ancestor, the parent itself or the root: a directory that contains itself through links
            tgt = rng.choice(dirs[1:] + [parent, ""] + [d for d in dirs if d and (parent + "/").startswith(d + "/")])
            os.symlink(os.path.relpath(os.path.join(root, tgt), os.path.dirname(full)), full)
            if rng.random() < 0.6:
                # files of one name next to the link and next to what it points to: "<link>/../twin.slice" is the latter, whatever the text suggests
                for dd in {parent, os.path.dirname(tgt)}:
                    tw = os.path.join(dd, "twin.slice")
                    if not os.path.exists(os.path.join(root, tw)):
                        open(os.path.join(root, tw), "w").write("module Twin%d_%d\nstruct T%d {}\n" % (idx, len(files), len(files)))
                        files.append(tw)
        else:
            os.symlink("nowhere%d.slice" % n, full)
        links.append(name)
    return dirs, files, links


def spell(rng, root, p):
    """another spelling of the same path"""
    r = rng.random()
    if r < 0.5:
        return p
    if r < 0.65:
        return "./" + p
    if r < 0.8:
        return os.path.join(root, p)
    if r < 0.9 and "/" in p:
        d, b = p.rsplit("/", 1)
        return d + "/../" + d.rsplit("/", 1)[-1] + "/" + b
    return p.replace("/", "//", 1)


def oracle(root, args):
    """tables for the model: what the file system says about every path the walk can reach"""
    K, C, L, U = {}, {}, {}, []
    ids = {}

    explored = {}

    def visit(p, anc):
        # what the file system says about a path does not depend on how it was reached, but which paths below it can be asked for does:
        # a path is explored again when it is reached with fewer directories on the way than ever before
        cur = frozenset(anc)
        if any(e <= cur for e in explored.get(p, ())) or len(anc) > 40:
            return
        explored.setdefault(p, []).append(cur)
        full = os.path.join(root, p)
        if os.path.isdir(full):
            K[p] = "d"
            real = os.path.realpath(full)
            try:
                names = os.listdir(full)
                L[p] = [os.path.join(p, n) if not p.endswith("/") else p + n for n in names]
            except OSError:
                L[p] = None
            if real not in anc:          # a directory reached again from within itself is not entered (what lies below is never asked for)
                for c in L[p] or []:
                    visit(c, anc + [real])
        elif os.path.isfile(full):
            K[p] = "f"
            try:
                open(full, encoding="utf-8").read()
            except (UnicodeDecodeError, OSError):
                U.append(p)
        else:
            K[p] = "n"
        if os.path.exists(full):
            C[p] = ids.setdefault(os.path.realpath(full), len(ids))
    for a in args:
        visit(a, [])
    return K, C, L, U


def classify(msg):
    if "No such file" in msg or "not found" in msg.lower():
        return "notfound"
    if "must end with a '.slice' extension" in msg:
        return "notslice"
    if "found a directory" in msg:
        return "dir"
    if "valid UTF-8" in msg:
        return "unreadable"
    return "other:" + msg[-60:]


def run(ck):
    rng = ck.rng
    n = 600 if ck.tier == "quick" else 6000
    base = os.path.join(SCRATCH, "c17-%d" % os.getpid())
    shutil.rmtree(base, ignore_errors=True)
    lines, mlines, metas = [], [], []
    try:
        for i in range(n):
            root = os.path.join(base, "t%d" % i)
            dirs, files, links = build_tree(rng, root, i)
            good = [f for f in files if f.endswith(".slice") and os.path.basename(f) != ".slice"]
            good += [l for l in links if l.endswith(".slice") and os.path.isfile(os.path.join(root, l))]
            if rng.random() < 0.6 and good:
                # arguments that are all acceptable: aliasing, links, repeats and directories are what is exercised
                spool, rpool = good, good + dirs[1:] + [l for l in links if os.path.isdir(os.path.join(root, l))]
            else:
                spool = rpool = files + links + dirs[1:] + ["nope.slice", "missing/dir"]
            srcs = [spell(rng, root, rng.choice(spool)) for _ in range(rng.choice([1, 1, 2, 3, 4]))]
            refs = [spell(rng, root, rng.choice(rpool)) for _ in range(rng.choice([0, 0, 1, 2, 3]))]
            # '..' after a link to a directory: the file system goes to the parent of what the link points to, not to the directory the link is in
            through = []
            for l in links:
                if os.path.isdir(os.path.join(root, l)):
                    up = os.path.dirname(os.path.realpath(os.path.join(root, l)))
                    try:
                        through += [l + "/../" + nm for nm in sorted(os.listdir(up)) if nm.endswith(".slice") and os.path.isfile(os.path.join(up, nm))]
                    except OSError:
                        pass
            if through and rng.random() < 0.7:
                t = rng.choice(through)
                (srcs if rng.random() < 0.6 else refs).append(t)
                # next to it, the file its text seems to name, or the file it really is, spelled plainly
                near = os.path.normpath(t)
                real = os.path.relpath(os.path.realpath(os.path.join(root, t)), os.path.realpath(root))
                for cand in (near, real):
                    if rng.random() < 0.6 and os.path.isfile(os.path.join(root, cand)):
                        (srcs if rng.random() < 0.5 else refs).append(cand)
            if rng.random() < 0.3 and srcs:
                srcs.append(rng.choice(srcs))            # the very same spelling twice
            if rng.random() < 0.3 and srcs:
                refs.append(rng.choice(srcs))            # a source given as a reference too
            if rng.random() < 0.3:
                refs.append(rng.choice([".", "./", dirs[-1] if len(dirs) > 1 else "."]))
            lines.append("fileset %s %s" % (hx(root), " ".join(["S:" + hx(a) for a in srcs] + ["R:" + hx(a) for a in refs])))
            K, C, L, U = oracle(root, srcs + refs)
            mlines.append("fileset K %s C %s L %s U %s S %s R %s" % (
                " ".join("%s=%s" % (hx(p), k) for p, k in K.items()), " ".join("%s=%d" % (hx(p), c) for p, c in C.items()),
                " ".join("%s=%s" % (hx(p), "!" if c is None else ",".join(hx(x) for x in c)) for p, c in L.items()),
                " ".join(hx(p) for p in U), " ".join(hx(a) for a in srcs), " ".join(hx(a) for a in refs)))
            metas.append((root, srcs, refs))
        o = core.run_impl("fileset", lines, chunk=40, timeout=300)
        m = core.run_model("fileset", mlines, chunk=300)
        # which of the paths the compiler was handed hold nothing for it (read while the trees are still there)
        blank = {}
        for (root, srcs, refs), oo in zip(metas, o):
            for part in oo.split(" || ")[0].split(" "):
                if part.count(":") == 2:
                    pth = unhx(part.split(":")[1])
                    try:
                        blank[(root, pth)] = "module M" not in open(os.path.join(root, pth), encoding="utf-8", errors="replace").read()
                    except OSError:
                        blank[(root, pth)] = False
    finally:
        shutil.rmtree(base, ignore_errors=True)
    ck.stream("filesets", description="random directory trees (depth <= 4; .slice and other files, names like '.slice', 'x.y.slice', 'f.slice.bak', 'h.SLICE', names with commas, '=' and spaces, directories named '*.slice', the argument lists passed through the command-line parser, "
              "non-UTF-8 files, empty and comment-only files, symbolic links to files, to directories and to nothing) x argument lists that alias the same file through './', '..', '//', '..' after a link to a directory (next to the file the text seems to name), absolute paths and links, in both lists, with repeats, "
              "with a source also given as a reference, with directories as references. compile_from_options in that tree vs the model fed with the file system's answers (kind, canonical identity, directory "
              "listing in the OS's order, readability): the compiled files with their roles in order, every error and DuplicateFile warning, and that nothing is parsed after an error.")
    for (root, srcs, refs), line, oo, mo in zip(metas, lines, o, m):
        case = "sources: %r\nreferences: %r" % (srcs, refs)
        ck.count("filesets", line, kind="%d args" % (len(srcs) + len(refs)))
        if " || " not in oo or oo.startswith(("crash", "panic", "?")):
            ck.violation("filesets", "crash", case, "a file set", oo[:300])
            continue
        fpart, dpart = oo.split(" || ", 1)
        files = [x.split(":") for x in fpart.split(" ") if x]
        diags = parse_diags(dpart) or []
        mparts = mo.split(" || ")
        if len(mparts) != 3:
            ck.violation("filesets", "model-error", case, "a result", mo[:200], kind="correspondence")
            continue
        want_files = [x for x in mparts[0].split(" ") if x]
        have_files = ["%s:%s" % (k, p) for k, p, _ in files]
        if want_files != have_files:
            ck.violation("filesets", "compiled-set-differs", case, " ".join("%s:%s" % (x[0], unhx(x[2:])) for x in want_files), " ".join("%s:%s" % (x[0], unhx(x[2:])) for x in have_files))
            continue
        dist = ck.stream("filesets")["distribution"]
        for x in mparts[1].split(" "):
            if x:
                dist["diag:" + x.split(":")[0]] = dist.get("diag:" + x.split(":")[0], 0) + 1
        dist["files compiled"] = dist.get("files compiled", 0) + len(want_files)
        dist["parses=" + mparts[2][-1]] = dist.get("parses=" + mparts[2][-1], 0) + 1
        want_d = sorted((x.split(":")[0], unhx(x.split(":")[1])) for x in mparts[1].split(" ") if x)
        have_d = []
        for d in diags:
            if d["code"] == "E001":
                path = d["msg"].split("'")[1] if "'" in d["msg"] else "?"
                have_d.append((classify(d["msg"]), path))
            elif d["code"] == "DuplicateFile":
                have_d.append(("duplicate", d["msg"].split("'")[1] if "'" in d["msg"] else "?"))
        # errors other than I/O can only come from parsing, which must not happen after an I/O error
        other = [d for d in diags if d["code"] not in ("E001", "DuplicateFile")]
        if sorted(have_d) != want_d:
            ck.violation("filesets", "diagnostics-differ", case, str(want_d)[:300], str(sorted(have_d))[:300])
            continue
        parsed = [p for _, p, x in files if x == "1"]
        if mparts[2] == "parses=0" and (parsed or other):
            ck.violation("filesets", "parsed-despite-io-error", case, "nothing is parsed", "parsed %s; %s" % ([unhx(p) for p in parsed], [d["code"] for d in other]))
        # (a file with nothing in it for the compiler shows no module and no definitions although it was parsed)
        if mparts[2] == "parses=1" and any(x != "1" and not blank.get((root, unhx(p)), False) for _, p, x in files):
            ck.violation("filesets", "not-parsed", case, "every file parsed", "parsed %d of %d; %s" % (len(parsed), len(files), [d["msg"] for d in other][:2]))
    ck.samples.append({"stream": "filesets", "case": lines[0][:300], "impl": o[0][:300], "model": m[0][:300]})
    ck.extra["rule"] = "%d random trees and argument lists; distinct by case text" % n
    ck.partial.append("directories that cannot be listed and files that cannot be opened cannot be produced when the check runs as root; unreadable content is produced with invalid UTF-8 instead. "
                      "Symbolic links that lead back into a directory being searched are generated; the walk's termination is a theorem of the model (C17_walk_fuel_independent).")
