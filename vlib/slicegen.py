"""Generative model of (mostly valid) Slice programs, shared by the front-end checks.

A program is plain data (dicts/lists); `render` writes Slice text in a plain layout (one member per line is not needed;
layout-randomising printers live with the checks that need recorded positions)."""

PRIMS = ["bool", "int8", "uint8", "int16", "uint16", "int32", "uint32", "varint32", "varuint32", "int64", "uint64",
         "varint62", "varuint62", "float32", "float64", "string"]
INTEGRAL = [p for p in PRIMS if p not in ("bool", "float32", "float64", "string")]
KEYABLE = INTEGRAL + ["bool", "string"]
BOUNDS = {"int8": (-128, 127), "uint8": (0, 255), "int16": (-32768, 32767), "uint16": (0, 65535), "int32": (-2**31, 2**31 - 1),
          "uint32": (0, 2**32 - 1), "varint32": (-2**31, 2**31 - 1), "varuint32": (0, 2**32 - 1), "int64": (-2**63, 2**63 - 1),
          "uint64": (0, 2**64 - 1), "varint62": (-2**61, 2**61 - 1), "varuint62": (0, 2**62 - 1)}
KEYWORDS = ["module", "struct", "enum", "interface", "custom", "typealias", "compact", "unchecked", "idempotent", "stream", "tag",
            "Sequence", "Dictionary", "Result"] + PRIMS


def prim(name, opt=False):
    return {"k": "prim", "name": name, "opt": opt, "attrs": []}


def named(defn, opt=False, spelling=None):
    return {"k": "named", "id": defn["scoped"], "kind": defn["kind"], "text": spelling or defn["name"], "opt": opt, "attrs": []}


class Gen:
    def __init__(self, rng, nfiles=None, max_defs=5, doc=False, foreign_attrs=True, depth=3):
        self.rng, self.max_defs, self.doc, self.foreign_attrs, self.depth = rng, max_defs, doc, foreign_attrs, depth
        self.nfiles = nfiles or rng.choice([1, 1, 2, 3])
        self.counter = 0
        self.types = []      # definitions usable as field types so far (structs, enums, custom, aliases)
        self.ifaces = []
        self.keyable = []    # definitions usable as dictionary keys

    def name(self, prefix):
        self.counter += 1
        return "%s%d" % (prefix, self.counter)

    def attrs(self, p=0.25):
        if not self.foreign_attrs or self.rng.random() > p:
            return []
        out = []
        for _ in range(self.rng.choice([1, 1, 2])):
            args = [self.rng.choice(["a", "b1", "x y", "q,r", "z\"w", "ü", "", "back\\slash", "trailing\\", "\\", "\"", "q\\\"", "\\\\"]) for _ in range(self.rng.choice([0, 0, 1, 2]))]
            # foreign directives, also ones whose last segment spells a built-in directive: only the whole directive says what an attribute is
            out.append((self.rng.choice(["x::one", "x::two", "x::struct", "x::int32", "x::one", "x::two", "foo::deprecated", "cs::allow", "bar::baz::oneway", "x::compress", "y::slicedFormat", "deprecated::x"]), args))
        return out

    def spelling(self, d, from_module):
        r = self.rng.random()
        if r < 0.5 and (d["module"] == from_module or from_module.startswith(d["module"] + "::")):
            return d["name"]
        if r < 0.8:
            return d["scoped"]
        return "::" + d["scoped"]

    def type(self, module, depth=0, allow_opt=True, key=False):
        rng = self.rng
        if key:
            c = rng.random()
            if c < 0.7 or not self.keyable:
                t = prim(rng.choice(KEYABLE))
            else:
                d = rng.choice(self.keyable)
                t = named(d, spelling=self.spelling(d, module))
            if rng.random() < 0.15:
                t["attrs"] = self.attrs(1.0)      # a key type may carry attributes like any other type reference
            return t
        opt = allow_opt and rng.random() < 0.2
        c = rng.random()
        if depth < self.depth and c < 0.3:
            k = rng.random()
            if k < 0.45:
                t = {"k": "seq", "e": self.type(module, depth + 1), "opt": opt, "attrs": []}
            elif k < 0.8:
                t = {"k": "dict", "key": self.type(module, depth + 1, key=True), "val": self.type(module, depth + 1), "opt": opt, "attrs": []}
            else:
                t = {"k": "res", "ok": self.type(module, depth + 1), "err": self.type(module, depth + 1), "opt": opt, "attrs": []}
        elif c < 0.6 and self.types:
            d = rng.choice(self.types)
            t = named(d, opt, self.spelling(d, module))
        else:
            t = prim(rng.choice(PRIMS), opt)
        if rng.random() < 0.1:
            t["attrs"] = self.attrs(1.0)
        return t

    def members(self, module, n, prefix, tags_ok=True, stream_last=False):
        rng = self.rng
        out, used_tags = [], set()
        for i in range(n):
            m = {"name": self.name(prefix), "tag": None, "attrs": self.attrs(0.1), "stream": False, "doc": None}
            m["type"] = self.type(module)
            if tags_ok and rng.random() < 0.25:
                tag = rng.choice([0, 1, 2, 7, 2**31 - 1, rng.randrange(0, 1000)])
                if tag not in used_tags:
                    used_tags.add(tag)
                    m["tag"] = tag
                    m["type"]["opt"] = True
            out.append(m)
        if stream_last and out and rng.random() < 0.3:
            out[-1]["stream"] = True
            if rng.random() < 0.5:          # a streamed member may carry a tag (it is optional then)
                out[-1]["tag"] = None
            elif out[-1]["tag"] is None and tags_ok and rng.random() < 0.5:
                tag = rng.choice([3, 5, 11, 2**31 - 2])
                if tag not in used_tags:
                    out[-1]["tag"] = tag
                    out[-1]["type"]["opt"] = True
        return out

    def definition(self, module):
        rng = self.rng
        kind = rng.choice(["struct", "struct", "enum", "enum", "interface", "custom", "alias", "alias"])
        d = {"kind": kind, "module": module, "attrs": self.attrs(0.2), "doc": None}
        if kind == "struct":
            d["name"] = self.name("S")
            d["compact"] = rng.random() < 0.25
            n = rng.randrange(1 if d["compact"] else 0, 4)
            d["fields"] = self.members(module, n, "f", tags_ok=not d["compact"])
        elif kind == "enum":
            d["name"] = self.name("E")
            with_fields = rng.random() < 0.4
            d["compact"] = with_fields and rng.random() < 0.3
            d["unchecked"] = (not d["compact"]) and rng.random() < 0.3
            d["underlying"] = None if with_fields else rng.choice([None] + INTEGRAL)
            if d["underlying"]:
                d["underlying_attrs"] = self.attrs(0.3)      # an underlying type is a type reference like any other
            lo, hi = BOUNDS[d["underlying"]] if d["underlying"] else (0, 2**31 - 1)
            ens, used, prev = [], set(), None
            for i in range(rng.randrange(0 if d["unchecked"] else 1, 4)):
                e = {"name": self.name("En"), "attrs": self.attrs(0.1), "fields": None, "value": None, "base": rng.choice(["dec", "dec", "hex", "bin"]), "doc": None}
                if rng.random() < 0.5:
                    v = rng.choice([lo, hi, 0, 1, rng.randrange(lo, hi + 1), max(lo, min(hi, rng.randrange(-300, 300)))])
                else:
                    v = None
                actual = v if v is not None else (0 if prev is None else prev + 1)
                if actual in used or not (lo <= actual <= hi):
                    # fall back to an explicit unused value
                    actual = next(x for x in range(max(lo, 0), hi + 1) if x not in used)
                    v = actual
                used.add(actual)
                prev = actual
                e["value"], e["actual"] = v, actual
                if with_fields and rng.random() < 0.7:
                    e["fields"] = self.members(module, rng.randrange(0, 3), "ef", tags_ok=not d["compact"])
                ens.append(e)
            d["enumerators"] = ens
        elif kind == "interface":
            d["name"] = self.name("I")
            d["bases"] = []
            if self.ifaces and rng.random() < 0.5:
                for b in rng.sample(self.ifaces, k=min(len(self.ifaces), rng.choice([1, 1, 2]))):
                    d["bases"].append(named(b, spelling=self.spelling(b, module)))
                    d["bases"][-1]["attrs"] = self.attrs(0.3)
            ops = []
            for _ in range(rng.randrange(0, 3)):
                o = {"name": self.name("op"), "idempotent": rng.random() < 0.3, "attrs": self.attrs(0.1), "doc": None}
                o["params"] = self.members(module, rng.randrange(0, 3), "p", stream_last=True)
                nr = rng.choice([0, 1, 1, 2, 3])
                o["returns"] = self.members(module, nr, "r", stream_last=True)
                ops.append(o)
            d["ops"] = ops
        elif kind == "custom":
            d["name"] = self.name("C")
        else:
            d["name"] = self.name("A")
            d["type"] = self.type(module, allow_opt=False)
            d["type"]["opt"] = False
        d["scoped"] = module + "::" + d["name"]
        return d

    def program(self):
        rng = self.rng
        modules = ["M", "M::N", "P", "M::N::O"]
        files = []
        for i in range(self.nfiles):
            module = rng.choice(modules)
            f = {"path": "string-%d" % i, "module": module, "fattrs": self.attrs(0.2), "mattrs": self.attrs(0.1), "defs": []}
            for _ in range(rng.randrange(1, self.max_defs + 1)):
                d = self.definition(module)
                f["defs"].append(d)
                if d["kind"] == "interface":
                    self.ifaces.append(d)
                else:
                    self.types.append(d)
                    if d["kind"] == "custom" or (d["kind"] == "enum" and d["underlying"]):
                        self.keyable.append(d)
            files.append(f)
        return {"files": files}


# ---------------------------------------------------------------------------------- rendering (plain layout)
def esc_arg(a):
    if a and all(c.isalnum() or c in "_" for c in a) and a.isascii():
        return a
    return '"' + a.replace("\\", "\\\\").replace('"', '\\"') + '"'


def r_attrs(attrs):
    return "".join("[%s%s] " % (d, ("(" + ", ".join(esc_arg(a) for a in args) + ")") if args else "") for d, args in attrs)


def r_type(t):
    a = r_attrs(t.get("attrs", []))
    if t["k"] == "prim":
        s = t["name"]
    elif t["k"] == "named":
        s = t["text"]
    elif t["k"] == "seq":
        s = "Sequence<%s>" % r_type(t["e"])
    elif t["k"] == "dict":
        s = "Dictionary<%s, %s>" % (r_type(t["key"]), r_type(t["val"]))
    else:
        s = "Result<%s, %s>" % (r_type(t["ok"]), r_type(t["err"]))
    return a + s + ("?" if t.get("opt") else "")


def r_int(v, base):
    if v is None:
        return None
    neg = v < 0
    a = abs(v)
    s = {"dec": str(a), "hex": "0x%X" % a, "bin": "0b" + bin(a)[2:]}[base]
    return ("-" if neg else "") + s


def r_member(m):
    return ("\n" + r_doc(m["doc"]) if m.get("doc") else "") + "%s%s%s: %s%s" % (r_attrs(m["attrs"]), ("tag(%d) " % m["tag"]) if m["tag"] is not None else "", m["name"], "stream " if m.get("stream") else "", r_type(m["type"]))


def r_doc(doc):
    return "".join("///%s\n" % l for l in doc) if doc else ""


def r_def(d):
    k = d["kind"]
    pre = r_doc(d.get("doc")) + r_attrs(d["attrs"])
    if k == "struct":
        return pre + "%sstruct %s { %s }" % ("compact " if d["compact"] else "", d["name"], ", ".join(r_member(m) for m in d["fields"]))
    if k == "enum":
        ens = []
        for e in d["enumerators"]:
            s = ("\n" + r_doc(e["doc"]) if e.get("doc") else "") + r_attrs(e["attrs"]) + e["name"]
            if e["fields"] is not None:
                s += "(%s)" % ", ".join(r_member(m) for m in e["fields"])
            if e["value"] is not None:
                s += " = " + r_int(e["value"], e["base"])
            ens.append(s)
        return pre + "%s%senum %s%s { %s }" % ("compact " if d["compact"] else "", "unchecked " if d["unchecked"] else "", d["name"],
                                               (" : " + r_attrs(d.get("underlying_attrs", [])) + d["underlying"] + ("?" if d.get("underlying_opt") else "")) if d["underlying"] else "", ", ".join(ens))
    if k == "interface":
        ops = []
        for o in d["ops"]:
            rs = o["returns"]
            if len(rs) == 0 and not o.get("tuple"):
                ret = ""
            elif len(rs) == 1 and not o.get("tuple"):
                m = rs[0]
                ret = " -> %s%s%s" % (("tag(%d) " % m["tag"]) if m["tag"] is not None else "", "stream " if m.get("stream") else "", r_type(m["type"]))
            else:
                ret = " -> (%s)" % ", ".join(r_member(m) for m in rs)
            ops.append(r_doc(o.get("doc")) + "%s%s%s(%s)%s" % (r_attrs(o["attrs"]), "idempotent " if o["idempotent"] else "", o["name"], ", ".join(r_member(m) for m in o["params"]), ret))
        return pre + "interface %s%s {\n%s\n}" % (d["name"], (" : " + ", ".join(r_type(b) for b in d["bases"])) if d["bases"] else "", "\n".join("    " + o for o in ops))
    if k == "custom":
        return pre + "custom %s" % d["name"]
    return pre + "typealias %s = %s" % (d["name"], r_type(d["type"]))


def render_file(f):
    out = []
    for d, args in f.get("fattrs", []):
        out.append("[[%s%s]]" % (d, ("(" + ", ".join(esc_arg(a) for a in args) + ")") if args else ""))
    out.append(r_attrs(f.get("mattrs", [])) + "module " + f["module"])
    for d in f["defs"]:
        out.append(r_def(d))
    return "\n".join(out) + "\n"


def render(prog):
    return [render_file(f) for f in prog["files"]]
